(* C07 -- centre-of-mass refinement is engine-independent and self-consistent.
   Only statements closed by [exact]; proofs live in Proofs/COM.v, the models in
   Model/COM.v (refine_python = _refine, refine_numba = the numba kernels behind
   refine_com_arr's preparation).  pix / rawpix are image and raw_image as
   arbitrary functions from index vectors to integers: every image of every size
   and any number (>= 2) of axes is covered. *)
From Coq Require Import ZArith QArith List Bool Lia.
From TP Require Import Model.COM Proofs.COM.
Import ListNotations.
Open Scope Z_scope.

(* (1) Engine independence.  For every image, raw image, per-axis radii >= 1, image
   shape, shift threshold >= 0, iteration limit, characterize flag and start pixel:
   the numba kernels return exactly the row of the reference loop (same position,
   mass, size^2 column(s), signal, raw_mass) when every window the iteration
   evaluates has non-zero brightness under the mask; otherwise they divide by zero. *)
Theorem C07_engines_agree : forall pix rawpix radius shape thresh max_iterations characterize start,
  (0 <= thresh)%Q -> (2 <= length radius)%nat -> Forall (fun r => 1 <= r) radius ->
  refine_numba pix rawpix radius shape thresh max_iterations characterize start =
  if ref_nonzero pix radius shape thresh (binary_mask radius) (pred (iters_of max_iterations)) start
  then KOk (refine_python pix rawpix radius shape thresh max_iterations characterize start)
  else KDivZero.
Proof. exact engines_agree. Qed.
Print Assumptions C07_engines_agree.

(* (2) Self-consistency of the reference engine.  If the start window lies inside the
   image and no evaluated window is dark, there is ONE window centre c with
     r_d <= c_d <= shape_d - 1 - r_d on every axis,
     every pixel of its mask neighbourhood  nbhd radius c  inside the image and inside
       the ellipse  sum ((x_d - c_d)/r_d)^2 <= 1  around c,
   such that the reported position is the brightness centroid of that neighbourhood
     sum I(x) x_d / sum I(x)   on every axis,
   the reported mass is  sum I(x),  size^2 is the (per-axis) squared gyration radius
   about c, signal is the brightest pixel (not below 0) and raw_mass is  sum Raw(x)
   over the very same neighbourhood -- also when the iteration limit stops the walk
   right after a shift. *)
Theorem C07_python_self_consistent : forall pix rawpix radius shape thresh max_iterations characterize start,
  (2 <= length radius)%nat -> Forall (fun r => 1 <= r) radius ->
  length start = length radius -> length shape = length radius ->
  window_inside radius shape start ->
  ref_nonzero pix radius shape thresh (binary_mask radius) (pred (iters_of max_iterations)) start = true ->
  let out := refine_python pix rawpix radius shape thresh max_iterations characterize start in
  exists c,
    length c = length radius /\ window_inside radius shape c /\
    let pts := nbhd radius c in
    (forall x, In x pts -> in_image shape x /\
                           in_ellipse radius (map (fun d => ix x d - ix c d) (seq 0 (length radius)))) /\
    total pix pts <> 0 /\
    length (o_pos out) = length radius /\
    (forall d, (d < length radius)%nat -> (qx (o_pos out) d == centroid pix pts d)%Q) /\
    o_mass out = total pix pts /\
    o_char out =
      if characterize
      then Some (if isotropic radius then [gyration2 pix c pts]
                 else map (gyration2_axis pix c pts) (seq 0 (length radius)),
                 brightest pix pts, total rawpix pts)
      else None.
Proof. exact python_self_consistent. Qed.
Print Assumptions C07_python_self_consistent.

(* (2') The mask neighbourhood used in (2) is exactly the set of image pixels inside the
   ellipse around c, each listed once -- nothing is cut off by the image border. *)
Theorem C07_neighbourhood_is_ellipse : forall radius shape c,
  Forall (fun r => 1 <= r) radius -> length shape = length radius ->
  window_inside radius shape c ->
  NoDup (nbhd radius c) /\
  forall x, In x (nbhd radius c) <->
            length x = length radius /\ in_image shape x /\
            in_ellipse radius (map (fun d => ix x d - ix c d) (seq 0 (length radius))).
Proof. exact nbhd_is_ellipse. Qed.
Print Assumptions C07_neighbourhood_is_ellipse.

(* (3) The same for the kernels: whenever they return a row at all, it is the
   reference row and it is self-consistent in the sense of (2)
   ([row_is_consistent] is literally the "exists c, ..." of (2)). *)
Theorem C07_numba_self_consistent : forall pix rawpix radius shape thresh max_iterations characterize start out,
  (0 <= thresh)%Q -> (2 <= length radius)%nat -> Forall (fun r => 1 <= r) radius ->
  length start = length radius -> length shape = length radius ->
  window_inside radius shape start ->
  refine_numba pix rawpix radius shape thresh max_iterations characterize start = KOk out ->
  out = refine_python pix rawpix radius shape thresh max_iterations characterize start /\
  row_is_consistent pix rawpix radius shape characterize out.
Proof. exact numba_self_consistent. Qed.
Print Assumptions C07_numba_self_consistent.

(* (4) Why the property excludes dark neighbourhoods: there the engines differ. *)
Theorem C07_zero_mass_differs : forall pix rawpix radius shape thresh max_iterations characterize start,
  (0 <= thresh)%Q -> (2 <= length radius)%nat -> Forall (fun r => 1 <= r) radius ->
  nb_sum pix radius (binary_mask radius) start = 0 ->
  refine_numba pix rawpix radius shape thresh max_iterations characterize start = KDivZero.
Proof. exact zero_mass_differs. Qed.
Print Assumptions C07_zero_mass_differs.

(* ---------- non-vacuity ---------- *)
(* a 7x9 image brightening along x: hypotheses hold, every iteration shifts the window
   one pixel along x, and the iteration limit stops the walk right after a shift
   (the row reports the last EVALUATED window: masses 240 / 529 / 1052 for limits 1 / 2 / 3) *)
Definition ex_img (idx : list Z) : Z :=
  match idx with
  | [y; x] => 1 + x * x * x + y
  | _ => 0
  end.

Example C07_hypotheses_satisfiable :
  window_inside [2; 2] [7; 9] [3; 2] /\
  ref_nonzero ex_img [2; 2] [7; 9] (3 # 5) (binary_mask [2; 2]) (pred (iters_of 2)) [3; 2] = true.
Proof.
  split; [|vm_compute; reflexivity].
  intros d Hd. destruct d as [|[|d]]; cbn in *; try lia.
Qed.

Example C07_walk_moves_and_limit_binds :
  refine_numba ex_img ex_img [2; 2] [7; 9] (3 # 5) 2 true [3; 2]
  = KOk (refine_python ex_img ex_img [2; 2] [7; 9] (3 # 5) 2 true [3; 2]) /\
  o_mass (refine_python ex_img ex_img [2; 2] [7; 9] (3 # 5) 2 true [3; 2]) = 529 /\
  o_mass (refine_python ex_img ex_img [2; 2] [7; 9] (3 # 5) 3 true [3; 2]) = 1052 /\
  o_mass (refine_python ex_img ex_img [2; 2] [7; 9] (3 # 5) 1 true [3; 2]) = 240.
Proof. vm_compute. repeat split; reflexivity. Qed.

(* the premise 0 <= shift_thresh of (1) is needed: below 0 the reference's two
   masked updates (+1 then -1) cancel while the kernels' if/elif only adds *)
Example C07_negative_threshold_differs :
  refine_numba ex_img ex_img [2; 2] [7; 9] (-(1 # 2)) 2 false [3; 2]
  <> KOk (refine_python ex_img ex_img [2; 2] [7; 9] (-(1 # 2)) 2 false [3; 2]).
Proof. vm_compute. discriminate. Qed.

(* ====================================================================================
   Route T for the numba kernels.  Gen/com_kernels.v is REGENERATED from the current
   source of trackpy/refine/center_of_mass.py by tools/py2coq_com.py on every check
   (Python ast -> Coq, statement by statement, fail-closed; vocabulary Model/PyKernel.v):
     numba_refine_2D / numba_refine_2D_c / numba_refine_2D_c_a / numba_refine_3D
   are the Python functions _numba_refine_2D / _2D_c / _2D_c_a / _3D: arrays are nested
   lists with total reads, floats are exact rationals, every division is guarded
   (DivZero), `for` loops recurse on the range length, the per-feature iteration loop with
   its `break` recurses on the iteration budget, results[feat, k] = v updates one cell of
   a list of rows (CQ v, or CSqrt v for np.sqrt(v)); ecc is sliced out.

   (5)-(8) say: called as refine_com_arr calls it -- mask columns  col d (mask_points radius)
   = mask.nonzero()[d], N_mask their number, the size weights r2m / x2m, max_iterations
   raised to >= 1 -- each generated kernel does exactly this ([feats] / [feat_step],
   Model/COMGen.v): for feat = 0 .. N-1 in turn, run the kernel model refine_numba of
   (1)-(4) from the start pixel coords[feat] on the same image (img2 / img3: the model's
   view of the nested lists); if it divides by zero the whole call fails with DivZero;
   otherwise write into row feat of results the cells listed by cells_2D / cells_2D_c /
   cells_2D_c_a / cells_3D (position, mass, sqrt of size^2 column(s), signal, raw_mass at
   the column numbers of the Python; every rational identical, not merely ==) and leave
   every other cell of results as it was.  No hypothesis on the image, the coordinates,
   the radii, the threshold or the results array. *)
From TP Require Import Model.PyKernel Gen.com_kernels Model.COMGen Proofs.COMGen.

(* (5) _numba_refine_2D  (2-D, characterize=False) *)
Theorem C07_generated_2D : forall image rawpix rY rX coords N max_iterations thresh sY sX results,
  let radius := [rY; rX] in
  let mpts := mask_points radius in
  numba_refine_2D image rY rX coords N (Z.max 1 max_iterations) thresh sY sX
                  (col 0 mpts) (col 1 mpts) (Z.of_nat (length mpts)) results =
  feats (feat_step (refine_numba (img2 image) rawpix radius [sY; sX] thresh max_iterations false)
                   (fun feat => [get2 coords feat 0; get2 coords feat 1]) cells_2D)
        (Z.to_nat N) 0 results.
Proof. exact gen_2D_is_model. Qed.
Print Assumptions C07_generated_2D.

(* (6) _numba_refine_2D_c  (2-D, characterize=True, radius[0] == radius[1]) *)
Theorem C07_generated_2D_c : forall raw_image image rY rX coords N max_iterations thresh sY sX cmask smask results,
  rY = rX ->
  let radius := [rY; rX] in
  let mpts := mask_points radius in
  numba_refine_2D_c raw_image image rY rX coords N (Z.max 1 max_iterations) thresh sY sX
                    (col 0 mpts) (col 1 mpts) (Z.of_nat (length mpts)) (r2m radius) cmask smask results =
  feats (feat_step (refine_numba (img2 image) (img2 raw_image) radius [sY; sX] thresh max_iterations true)
                   (fun feat => [get2 coords feat 0; get2 coords feat 1]) cells_2D_c)
        (Z.to_nat N) 0 results.
Proof. exact gen_2D_c_is_model. Qed.
Print Assumptions C07_generated_2D_c.

(* (7) _numba_refine_2D_c_a  (2-D, characterize=True, radius[0] != radius[1]) *)
Theorem C07_generated_2D_c_a : forall raw_image image rY rX coords N max_iterations thresh sY sX cmask smask results,
  rY <> rX ->
  let radius := [rY; rX] in
  let mpts := mask_points radius in
  numba_refine_2D_c_a raw_image image rY rX coords N (Z.max 1 max_iterations) thresh sY sX
                      (col 0 mpts) (col 1 mpts) (Z.of_nat (length mpts)) (x2m radius 0) (x2m radius 1) cmask smask results =
  feats (feat_step (refine_numba (img2 image) (img2 raw_image) radius [sY; sX] thresh max_iterations true)
                   (fun feat => [get2 coords feat 0; get2 coords feat 1]) cells_2D_c_a)
        (Z.to_nat N) 0 results.
Proof. exact gen_2D_c_a_is_model. Qed.
Print Assumptions C07_generated_2D_c_a.

(* (8) _numba_refine_3D  (3-D; characterize and isotropic = (radiusX == radiusY and radiusX == radiusZ)
   are decided inside the kernel: all four combinations) *)
Theorem C07_generated_3D : forall raw_image image rZ rY rX coords N max_iterations thresh characterize sZ sY sX results,
  let radius := [rZ; rY; rX] in
  let mpts := mask_points radius in
  numba_refine_3D raw_image image rZ rY rX coords N (Z.max 1 max_iterations) thresh characterize sZ sY sX
                  (col 0 mpts) (col 1 mpts) (col 2 mpts) (Z.of_nat (length mpts))
                  (r2m radius) (x2m radius 0) (x2m radius 1) (x2m radius 2) results =
  feats (feat_step (refine_numba (img3 image) (img3 raw_image) radius [sZ; sY; sX] thresh max_iterations characterize)
                   (fun feat => [get2 coords feat 0; get2 coords feat 1; get2 coords feat 2])
                   (cells_3D characterize (isotropic radius)))
        (Z.to_nat N) 0 results.
Proof. exact gen_3D_is_model. Qed.
Print Assumptions C07_generated_3D.

(* (9) With (1): for a feature whose visited windows are all bright, the row a generated
   kernel writes is the row of the reference engine refine_python (= _refine). *)
Theorem C07_generated_row_is_reference_row :
  forall pix rawpix radius shape thresh max_iterations characterize start cells feat results,
  (0 <= thresh)%Q -> (2 <= length radius)%nat -> Forall (fun r => 1 <= r) radius ->
  ref_nonzero pix radius shape thresh (binary_mask radius) (pred (iters_of max_iterations)) (start feat) = true ->
  feat_step (refine_numba pix rawpix radius shape thresh max_iterations characterize) start cells feat results =
  Ok (write_cells results feat
        (cells (refine_python pix rawpix radius shape thresh max_iterations characterize (start feat)))).
Proof. exact generated_row_is_reference_row. Qed.
Print Assumptions C07_generated_row_is_reference_row.

(* non-vacuity: the generated 2-D kernels run on the 7x9 image of the examples above
   (two features, limit 2: the first walks and is stopped by the limit, mass 529) *)
Definition ex_arr : list (list Z) :=
  map (fun y => map (fun x => ex_img [y; x]) (zrange 9)) (zrange 7).

Example C07_generated_2D_runs :
  numba_refine_2D ex_arr 2 2 [[3; 2]; [3; 6]] 2 2 (3 # 5) 7 9
                  (col 0 (mask_points [2; 2])) (col 1 (mask_points [2; 2])) 13 [[CNone; CNone; CNone]; [CNone; CNone; CNone]]
  = Ok [[CQ (1601 # 529); CQ (2003 # 529); CQ 529]; [CQ (9350 # 3112); CQ (20222 # 3112); CQ 3112]].
Proof. vm_compute. reflexivity. Qed.

Example C07_generated_2D_c_a_runs :
  numba_refine_2D_c_a ex_arr ex_arr 2 1 [[3; 2]] 1 3 (3 # 5) 7 9
                      (col 0 (mask_points [2; 1])) (col 1 (mask_points [2; 1])) 7
                      (x2m [2; 1] 0) (x2m [2; 1] 1) [] [] [repeat CNone 8]
  = Ok [[CQ (298 # 96); CQ (218 # 96); CQ 96; CSqrt (240 # 96); CSqrt (72 # 96); CNone; CQ 31; CQ 96]].
Proof. vm_compute. reflexivity. Qed.

(* ====================================================================================
   Route T for the pure-python engine and the glue.  Gen/refine.v is REGENERATED from the
   current source of trackpy/refine/center_of_mass.py by tools/py2coq_refine.py on every check
   (Python ast -> Coq, statement by statement, fail-closed; vocabulary Model/PyRefine.v):
     py_safe_center_of_mass / py_refine / py_refine_com_arr / py_refine_com
   are _safe_center_of_mass / _refine / refine_com_arr / refine_com.  Arrays are a shape with a
   total index function (image[rect] = the window at the slice starts, mask * window pointwise,
   .sum() / .max() over the box), 1-d arrays are lists with the elementwise operators written
   out, floats are exact rationals, the per-feature float64 arrays (final_coords, mass, Rg,
   signal, raw_mass) are rows of cells filled by X[feat] = v and read back by
   np.column_stack, `for feat, coord in enumerate(coords)` recurses on the list of rows,
   `for iteration in range(max_iterations)` with its break on the iteration budget; raise is
   an explicit outcome; ecc is sliced out (its column stays the unwritten np.empty cell).
   py_refine_com_arr calls py_refine and the four GENERATED numba kernels of (5)-(8).

   ref_row out (Model/COMRefine.v) is the result row of a feature whose model output is out:
   position, mass [, sqrt size^2 column(s), ecc cell, signal, raw_mass]. *)
From Coq Require Import String.
Import List. Import ListNotations.
From TP Require Import Model.PyRefine Gen.refine Model.COMRefine Proofs.COMRefine.

(* (10) _refine, called with max_iterations >= 1 (refine_com_arr sees to that) on an integer coords
   array whose rows have one entry per radius: the returned array has, for every feature in
   order, the row of the reference model ref_run of (1)-(4) started at that row of coords --
   every rational identical.  No hypothesis on the images, the threshold or the flags. *)
Theorem C07_generated_refine_is_reference :
  forall raw_image image radius coords max_iterations thresh characterize walkthrough,
  1 <= max_iterations -> length (a_shape image) = length radius ->
  Forall (fun c => length c = length radius) (m_rows coords) ->
  py_refine raw_image image radius coords max_iterations thresh characterize walkthrough =
  map (fun start => ref_row (ref_run (a_at image) (a_at raw_image) radius (a_shape image) thresh (binary_mask radius)
                                     (Z.to_nat max_iterations) characterize start)) (m_rows coords).
Proof. exact gen_refine_is_model. Qed.
Print Assumptions C07_generated_refine_is_reference.

(* (11) refine_com_arr with engine='python' (or 'auto' where numba is absent or the image is not 2-D /
   3-D), radius a tuple with one entry per image axis, coords a float array with one column per
   axis: it returns the rows of refine_python (the model of (1)-(4), max_iterations raised to >= 1)
   started at np.round(coords).astype(int), one row per feature, in order. *)
Theorem C07_generated_refine_com_arr_python :
  forall NUMBA_AVAILABLE raw_image image radius coords max_iterations engine thresh characterize walkthrough,
  mat_wf coords -> a_ndim raw_image = m_ncols coords -> a_ndim image = a_ndim raw_image ->
  Z.of_nat (length radius) = a_ndim image ->
  (engine = "python"%string \/
   (engine = "auto"%string /\ NUMBA_AVAILABLE && ((a_ndim image =? 2) || (a_ndim image =? 3)) = false)) ->
  py_refine_com_arr NUMBA_AVAILABLE raw_image image (RTuple radius) coords max_iterations engine thresh characterize walkthrough =
  Ret (refine_rows (a_at image) (a_at raw_image) radius (a_shape image) thresh max_iterations characterize
                   (m_rows (mat_round_int coords))).
Proof. exact gen_refine_com_arr_python. Qed.
Print Assumptions C07_generated_refine_com_arr_python.

(* (12) the headline clause for the generated python engine: for a feature whose (rounded) start window
   lies inside the image and whose visited windows are all bright, the row refine_com_arr returns
   is the row of an output that is self-consistent in the sense of (2): position = brightness
   centroid of the very neighbourhood (inside the image, the whole ellipse) on which mass, size,
   signal and raw_mass were measured. *)
Theorem C07_generated_python_self_consistent :
  forall NUMBA_AVAILABLE raw_image image radius coords max_iterations engine thresh characterize walkthrough k start,
  mat_wf coords -> a_ndim raw_image = m_ncols coords -> a_ndim image = a_ndim raw_image ->
  Z.of_nat (length radius) = a_ndim image ->
  (engine = "python"%string \/
   (engine = "auto"%string /\ NUMBA_AVAILABLE && ((a_ndim image =? 2) || (a_ndim image =? 3)) = false)) ->
  (2 <= length radius)%nat -> Forall (fun r => 1 <= r) radius ->
  nth_error (m_rows (mat_round_int coords)) k = Some start ->
  window_inside radius (a_shape image) start ->
  ref_nonzero (a_at image) radius (a_shape image) thresh (binary_mask radius) (pred (iters_of max_iterations)) start = true ->
  exists rows out,
    py_refine_com_arr NUMBA_AVAILABLE raw_image image (RTuple radius) coords max_iterations engine thresh characterize walkthrough = Ret rows /\
    nth_error rows k = Some (ref_row out) /\
    out = refine_python (a_at image) (a_at raw_image) radius (a_shape image) thresh max_iterations characterize start /\
    row_is_consistent (a_at image) (a_at raw_image) radius (a_shape image) characterize out.
Proof. exact generated_python_self_consistent. Qed.
Print Assumptions C07_generated_python_self_consistent.

(* (13) refine_com_arr with engine='numba' (or 'auto' with numba present), walkthrough off, 2-D image:
   the dispatch picks the kernel by characterize / radius[0] == radius[1] and hands it the mask
   offset columns, size weights, shape and results array for which (5)-(7) hold, so the call is:
   for every feature in turn one run of the kernel model refine_numba from the rounded start,
   writing its cells into np.empty((N, 3 | 7 | 8)); a division by zero in any feature ends the call
   with ZeroDivisionError.  (img2 (as_nested2 image) is the image read with two subscripts.) *)
Theorem C07_generated_refine_com_arr_numba_2D :
  forall NUMBA_AVAILABLE raw_image image rY rX coords max_iterations engine thresh characterize,
  a_ndim raw_image = m_ncols coords -> a_ndim image = 2 ->
  (engine = "numba"%string \/ (engine = "auto"%string /\ NUMBA_AVAILABLE = true)) ->
  let radius := [rY; rX] in
  let rows := m_rows (mat_round_int coords) in
  let run := refine_numba (img2 (as_nested2 image)) (img2 (as_nested2 raw_image)) radius
                          [zget (a_shape image) 0; zget (a_shape image) 1] thresh max_iterations characterize in
  let start := fun feat => [get2 rows feat 0; get2 rows feat 1] in
  py_refine_com_arr NUMBA_AVAILABLE raw_image image (RTuple radius) coords max_iterations engine thresh characterize false =
  if negb characterize then numba_rows run start cells_2D (m_nrows coords) 3
  else if rY =? rX then numba_rows run start cells_2D_c (m_nrows coords) 7
  else numba_rows run start cells_2D_c_a (m_nrows coords) 8.
Proof. exact gen_refine_com_arr_numba_2D. Qed.
Print Assumptions C07_generated_refine_com_arr_numba_2D.

(* (14) the same for a 3-D image: one kernel, 4 / 8 / 10 result columns *)
Theorem C07_generated_refine_com_arr_numba_3D :
  forall NUMBA_AVAILABLE raw_image image rZ rY rX coords max_iterations engine thresh characterize,
  a_ndim raw_image = m_ncols coords -> a_ndim image = 3 ->
  (engine = "numba"%string \/ (engine = "auto"%string /\ NUMBA_AVAILABLE = true)) ->
  let radius := [rZ; rY; rX] in
  let rows := m_rows (mat_round_int coords) in
  let run := refine_numba (img3 (as_nested3 image)) (img3 (as_nested3 raw_image)) radius
                          [zget (a_shape image) 0; zget (a_shape image) 1; zget (a_shape image) 2] thresh max_iterations characterize in
  let start := fun feat => [get2 rows feat 0; get2 rows feat 1; get2 rows feat 2] in
  py_refine_com_arr NUMBA_AVAILABLE raw_image image (RTuple radius) coords max_iterations engine thresh characterize false =
  numba_rows run start (cells_3D characterize (isotropic radius)) (m_nrows coords)
             (if characterize then if isotropic radius then 8 else 10 else 4).
Proof. exact gen_refine_com_arr_numba_3D. Qed.
Print Assumptions C07_generated_refine_com_arr_numba_3D.

(* (15) what refine_com_arr refuses: coords with another number of columns than the raw image has axes;
   a radius tuple of the wrong length; an unknown engine name *)
Theorem C07_generated_refine_com_arr_refuses :
  forall NUMBA_AVAILABLE raw_image image radius coords max_iterations engine thresh characterize walkthrough,
  (a_ndim raw_image <> m_ncols coords ->
   py_refine_com_arr NUMBA_AVAILABLE raw_image image radius coords max_iterations engine thresh characterize walkthrough =
   Raise (ValueError "The image has a different number of dimensions than the coordinate array.")) /\
  (a_ndim raw_image = m_ncols coords -> forall l, radius = RTuple l -> Z.of_nat (length l) <> a_ndim image ->
   py_refine_com_arr NUMBA_AVAILABLE raw_image image radius coords max_iterations engine thresh characterize walkthrough =
   Raise (ValueError "List length should have same length as image dimensions.")) /\
  (a_ndim raw_image = m_ncols coords -> forall l, radius = RTuple l -> Z.of_nat (length l) = a_ndim image ->
   engine <> "auto"%string -> engine <> "python"%string -> engine <> "numba"%string ->
   py_refine_com_arr NUMBA_AVAILABLE raw_image image radius coords max_iterations engine thresh characterize walkthrough =
   Raise (ValueError "Available engines are 'python' and 'numba'")).
Proof. exact gen_refine_com_arr_refuses. Qed.
Print Assumptions C07_generated_refine_com_arr_refuses.

(* (16) refine_com on a DataFrame: the position columns (given, or ['z','y','x'] / ['y','x'] by whether the
   frame has a 'z' column) are taken as the float coords array, refine_com_arr does the work with
   walkthrough off, and the result is a frame with the caller's index and the columns
     pos ++ ['mass'] ++ (['size'] | ['size_' + p for p in default_pos_columns(ndim)]) ++ ['ecc','signal','raw_mass']
   (the tail only with characterize; 'size' when all radii are equal); no rows: an empty frame with
   these columns and no index.  (17): the same for a plain array (default position names, no index). *)
Theorem C07_generated_refine_com_dataframe :
  forall NUMBA_AVAILABLE raw_image image radius r f m max_iterations engine thresh characterize pos_columns,
  validate_tuple radius (a_ndim image) = Ret r ->
  let pos := match pos_columns with None => guess_pos_columns f | Some p => p end in
  df_getitem_values f pos = Ret m ->
  py_refine_com NUMBA_AVAILABLE raw_image image radius (CDataFrame f) max_iterations engine thresh characterize pos_columns =
  frame_of (com_columns pos (a_ndim image) characterize (isotropic r)) (Some (df_index f)) (m_nrows m)
           (py_refine_com_arr NUMBA_AVAILABLE raw_image image (RTuple r) m max_iterations engine thresh characterize false).
Proof. exact gen_refine_com_dataframe. Qed.
Print Assumptions C07_generated_refine_com_dataframe.

Theorem C07_generated_refine_com_array :
  forall NUMBA_AVAILABLE raw_image image radius r m max_iterations engine thresh characterize pos_columns,
  validate_tuple radius (a_ndim image) = Ret r ->
  let pos := match pos_columns with None => default_pos_columns (a_ndim image) | Some p => p end in
  py_refine_com NUMBA_AVAILABLE raw_image image radius (CArray m) max_iterations engine thresh characterize pos_columns =
  frame_of (com_columns pos (a_ndim image) characterize (isotropic r)) None (m_nrows m)
           (py_refine_com_arr NUMBA_AVAILABLE raw_image image (RTuple r) m max_iterations engine thresh characterize false).
Proof. exact gen_refine_com_array. Qed.
Print Assumptions C07_generated_refine_com_array.

(* (18) the keyword defaults (0.6 is the float64 nearest to 3/5) *)
Theorem C07_generated_defaults :
  py_refine_com_arr_default_max_iterations = 10 /\ py_refine_com_arr_default_engine = "auto"%string /\
  py_refine_com_arr_default_shift_thresh = (5404319552844595 # 9007199254740992)%Q /\
  py_refine_com_arr_default_characterize = true /\ py_refine_com_arr_default_walkthrough = false /\
  py_refine_com_default_max_iterations = 10 /\ py_refine_com_default_engine = "auto"%string /\
  py_refine_com_default_shift_thresh = py_refine_com_arr_default_shift_thresh /\
  py_refine_com_default_characterize = true /\ py_refine_com_default_pos_columns = None.
Proof. exact gen_defaults. Qed.
Print Assumptions C07_generated_defaults.

(* non-vacuity: the generated refine_com runs on the 7x9 image of the examples above, through a DataFrame
   with columns x, y (positions 2.3, 2.6 round to the start pixel [3; 2]) and index label 5: engine
   'python', limit 2 -> the row of mass 529 of C07_walk_moves_and_limit_binds, size from the isotropic
   branch, under the columns y, x, mass, size, ecc, signal, raw_mass *)
Definition ex_zarr : zarr := mkArr [7; 9] ex_img.
Example C07_generated_refine_com_runs :
  py_refine_com false ex_zarr ex_zarr (RScalar 2)
                (CDataFrame (mkDF ["x"%string; "y"%string] [5] [[(23 # 10)%Q; (26 # 10)%Q]]))
                2 "python"%string (3 # 5) true None
  = Ret (mkFrame ["y"%string; "x"%string; "mass"%string; "size"%string; "ecc"%string; "signal"%string; "raw_mass"%string]
                 (Some [5])
                 [ref_row (refine_python ex_img ex_img [2; 2] [7; 9] (3 # 5) 2 true [3; 2])]) /\
  hd CNone (ref_row (refine_python ex_img ex_img [2; 2] [7; 9] (3 # 5) 2 true [3; 2])) = CQ (1601 # 529) /\
  length (ref_row (refine_python ex_img ex_img [2; 2] [7; 9] (3 # 5) 2 true [3; 2])) = 7%nat.
Proof. vm_compute. repeat split; reflexivity. Qed.

(* the numba engine of the generated refine_com_arr on the same case: the generated kernel of (6) runs *)
Example C07_generated_refine_com_arr_numba_runs :
  py_refine_com_arr false ex_zarr ex_zarr (RTuple [2; 2]) (mkMat 2 [[(26 # 10)%Q; (23 # 10)%Q]]) 2 "numba"%string (3 # 5) false false
  = Ret [[CQ (1601 # 529); CQ (2003 # 529); CQ 529]].
Proof. vm_compute. reflexivity. Qed.

(* ====================================================================================
   ENGINE INDEPENDENCE AT THE LEVEL OF THE GENERATED CODE (Proofs/COMEngines.v).
   (1) is about the two hand models, (11) / (13) / (14) say what each engine of the generated
   refine_com_arr computes.  (19)-(21) close the gap between them; (22) is the headline. *)
From TP Require Import Proofs.COMEngines.

(* (19) the models read the image only inside the image.  If pix' / rawpix' agree with pix / rawpix on
   every index vector inside [shape] (agree_inside: same length as shape, 0 <= x_d < shape_d) and the
   start window lies inside the image, the kernel model returns the same answer on both -- in
   particular on the nested-list view img2 (as_nested2 a) / img3 (as_nested3 a) that the generated
   refine_com_arr hands to the kernels and on the array a itself. *)
Theorem C07_kernel_model_reads_inside_only :
  forall pix pix' rawpix rawpix' radius shape thresh max_iterations characterize start,
  (0 <= thresh)%Q -> (2 <= length radius)%nat -> Forall (fun r => 1 <= r) radius ->
  length shape = length radius ->
  (forall x, length x = length shape -> in_image shape x -> pix x = pix' x) ->
  (forall x, length x = length shape -> in_image shape x -> rawpix x = rawpix' x) ->
  window_inside radius shape start ->
  refine_numba pix rawpix radius shape thresh max_iterations characterize start =
  refine_numba pix' rawpix' radius shape thresh max_iterations characterize start.
Proof. exact refine_numba_ext. Qed.
Print Assumptions C07_kernel_model_reads_inside_only.

Theorem C07_nested_view_is_the_image :
  (forall a : zarr, length (a_shape a) = 2%nat ->
     forall x, length x = length (a_shape a) -> in_image (a_shape a) x -> img2 (as_nested2 a) x = a_at a x) /\
  (forall a : zarr, length (a_shape a) = 3%nat ->
     forall x, length x = length (a_shape a) -> in_image (a_shape a) x -> img3 (as_nested3 a) x = a_at a x).
Proof. exact (conj img2_nested_agrees img3_nested_agrees). Qed.
Print Assumptions C07_nested_view_is_the_image.

(* (20) the kernels' outer loop on results = np.empty((N, k)): when every feature's kernel run returns
   (no division by zero), feature j's cells land in row j and nowhere else, so the result is one row
   per start, each the np.empty row with that feature's cells written over it
   (fill_row row cells = results[feat, k] = v for the (k, v) of cells, on one row). *)
Theorem C07_numba_rows_one_per_start :
  forall run start cells k (rowf : list Z -> list cell) (starts : list (list Z)) dflt,
  (forall j, (j < length starts)%nat -> start (Z.of_nat j) = nth j starts dflt) ->
  (forall s, In s starts ->
     exists out, run s = KOk out /\ Forall (fun kc => 0 <= fst kc) (cells out) /\
                 fill_row (repeat CNone (Z.to_nat k)) (cells out) = rowf s) ->
  numba_rows run start cells (Z.of_nat (length starts)) k = Ret (map rowf starts).
Proof. exact numba_rows_are. Qed.
Print Assumptions C07_numba_rows_one_per_start.

(* (21) written over an np.empty row, the cells of each kernel give exactly the row the python engine
   stacks (ref_row): same rationals in the same columns, and the ecc cell -- sliced out of both
   translations -- is the unwritten np.empty cell in both.  out_shape nd ch iso out: out has nd
   position entries and, with characterize, 1 (isotropic) or nd size^2 entries, signal, raw_mass --
   the form of every output of refine_python. *)
Theorem C07_kernel_cells_are_reference_row :
  (forall iso out, out_shape 2 false iso out ->
     fill_row (repeat CNone (Z.to_nat 3)) (cells_2D out) = ref_row out) /\
  (forall out, out_shape 2 true true out ->
     fill_row (repeat CNone (Z.to_nat 7)) (cells_2D_c out) = ref_row out) /\
  (forall out, out_shape 2 true false out ->
     fill_row (repeat CNone (Z.to_nat 8)) (cells_2D_c_a out) = ref_row out) /\
  (forall ch iso out, out_shape 3 ch iso out ->
     fill_row (repeat CNone (Z.to_nat (if ch then if iso then 8 else 10 else 4))) (cells_3D ch iso out) = ref_row out) /\
  (forall pix rawpix radius shape thresh max_iterations characterize start,
     out_shape (length radius) characterize (isotropic radius)
               (refine_python pix rawpix radius shape thresh max_iterations characterize start)).
Proof.
  exact (conj (fun iso out H => proj2 (row_2D iso out H))
        (conj (fun out H => proj2 (row_2D_c out H))
        (conj (fun out H => proj2 (row_2D_c_a out H))
        (conj (fun ch iso out H => proj2 (row_3D ch iso out H)) refine_python_shape)))).
Qed.
Print Assumptions C07_kernel_cells_are_reference_row.

(* (22) THE HEADLINE.  refine_com_arr as generated from the source, on a 2-D or 3-D image, raw image of
   the same shape, radius a tuple with one entry >= 1 per axis (equal or not), coords a float array
   with one column per axis, shift threshold >= 0, any max_iterations, characterize on or off.
   If every start pixel np.round(coords[feat]).astype(int) has its window inside the image and every
   window its walk evaluates has non-zero brightness under the mask (the property's premise), then
     engine='python' (or 'auto' without numba; any walkthrough flag)   and
     engine='numba'  (or 'auto' with numba; walkthrough off)
   both return -- neither raises -- the SAME array [rows]: one row per feature, in order, every
   cell the identical rational (position, mass, sqrt-of the same size^2 rational(s), signal,
   raw_mass; the ecc column is the cell neither translation models).  These are the rows of the
   reference model refine_python, and each is self-consistent in the sense of (2): the position
   is the brightness centroid of the very neighbourhood (the whole ellipse, inside the image) on
   which mass, size, signal and raw_mass were measured -- so the clause holds for BOTH engines. *)
Theorem C07_generated_engines_agree :
  forall NUMBA_AVAILABLE NUMBA_AVAILABLE' raw_image image radius coords max_iterations engine_py engine_nb
         thresh characterize walkthrough,
  mat_wf coords -> a_ndim raw_image = m_ncols coords -> a_shape raw_image = a_shape image ->
  Z.of_nat (length radius) = a_ndim image -> (a_ndim image = 2 \/ a_ndim image = 3) ->
  (engine_py = "python"%string \/
   (engine_py = "auto"%string /\ NUMBA_AVAILABLE && ((a_ndim image =? 2) || (a_ndim image =? 3)) = false)) ->
  (engine_nb = "numba"%string \/ (engine_nb = "auto"%string /\ NUMBA_AVAILABLE' = true)) ->
  (0 <= thresh)%Q -> Forall (fun r => 1 <= r) radius ->
  (forall start, In start (m_rows (mat_round_int coords)) ->
     window_inside radius (a_shape image) start /\
     ref_nonzero (a_at image) radius (a_shape image) thresh (binary_mask radius) (pred (iters_of max_iterations)) start = true) ->
  exists rows,
    py_refine_com_arr NUMBA_AVAILABLE raw_image image (RTuple radius) coords max_iterations engine_py thresh characterize walkthrough
      = Ret rows /\
    py_refine_com_arr NUMBA_AVAILABLE' raw_image image (RTuple radius) coords max_iterations engine_nb thresh characterize false
      = Ret rows /\
    rows = refine_rows (a_at image) (a_at raw_image) radius (a_shape image) thresh max_iterations characterize
                       (m_rows (mat_round_int coords)) /\
    forall k start, nth_error (m_rows (mat_round_int coords)) k = Some start ->
      exists out,
        nth_error rows k = Some (ref_row out) /\
        out = refine_python (a_at image) (a_at raw_image) radius (a_shape image) thresh max_iterations characterize start /\
        row_is_consistent (a_at image) (a_at raw_image) radius (a_shape image) characterize out.
Proof. exact generated_engines_agree. Qed.
Print Assumptions C07_generated_engines_agree.

(* (23) the same one level up, through the generated refine_com: radius a scalar or a tuple
   (validate_tuple), coords a DataFrame (position columns given or guessed) or an array; both engines
   return the same frame -- same column labels, same index, same rows. *)
Theorem C07_generated_refine_com_engines_agree :
  forall NUMBA_AVAILABLE NUMBA_AVAILABLE' raw_image image radius r c m max_iterations engine_py engine_nb
         thresh characterize pos_columns,
  validate_tuple radius (a_ndim image) = Ret r ->
  match c with
  | CDataFrame f => df_getitem_values f (match pos_columns with None => guess_pos_columns f | Some p => p end)
  | CArray m' => Ret m'
  end = Ret m ->
  mat_wf m -> a_ndim raw_image = m_ncols m -> a_shape raw_image = a_shape image ->
  (a_ndim image = 2 \/ a_ndim image = 3) ->
  (engine_py = "python"%string \/
   (engine_py = "auto"%string /\ NUMBA_AVAILABLE && ((a_ndim image =? 2) || (a_ndim image =? 3)) = false)) ->
  (engine_nb = "numba"%string \/ (engine_nb = "auto"%string /\ NUMBA_AVAILABLE' = true)) ->
  (0 <= thresh)%Q -> Forall (fun r => 1 <= r) r ->
  (forall start, In start (m_rows (mat_round_int m)) ->
     window_inside r (a_shape image) start /\
     ref_nonzero (a_at image) r (a_shape image) thresh (binary_mask r) (pred (iters_of max_iterations)) start = true) ->
  exists frame,
    py_refine_com NUMBA_AVAILABLE raw_image image radius c max_iterations engine_py thresh characterize pos_columns = Ret frame /\
    py_refine_com NUMBA_AVAILABLE' raw_image image radius c max_iterations engine_nb thresh characterize pos_columns = Ret frame /\
    of_rows frame = refine_rows (a_at image) (a_at raw_image) r (a_shape image) thresh max_iterations characterize
                                (m_rows (mat_round_int m)).
Proof. exact generated_refine_com_engines_agree. Qed.
Print Assumptions C07_generated_refine_com_engines_agree.

(* non-vacuity of (22): two features on the 7x9 image of the examples above (the first walks and is stopped
   by the limit, mass 529; the second, mass 3112): all hypotheses hold for radius (2, 2); both generated engines
   return the same two 7-column rows, ecc cell unwritten -- and the same 8-column rows for the radius (2, 1) *)
Definition ex_coords : qmat := mkMat 2 [[(26 # 10)%Q; (23 # 10)%Q]; [(3 # 1)%Q; (6 # 1)%Q]].
Example C07_generated_engines_agree_hypotheses_satisfiable :
  mat_wf ex_coords /\ a_ndim ex_zarr = m_ncols ex_coords /\ Z.of_nat (length [2; 2]) = a_ndim ex_zarr /\
  a_ndim ex_zarr = 2 /\ (0 <= 3 # 5)%Q /\ Forall (fun r => 1 <= r) [2; 2] /\
  (forall start, In start (m_rows (mat_round_int ex_coords)) ->
     window_inside [2; 2] (a_shape ex_zarr) start /\
     ref_nonzero (a_at ex_zarr) [2; 2] (a_shape ex_zarr) (3 # 5) (binary_mask [2; 2]) (pred (iters_of 2)) start = true).
Proof.
  split; [repeat constructor|]. split; [reflexivity|]. split; [reflexivity|]. split; [reflexivity|].
  split; [discriminate|]. split; [repeat constructor; lia|].
  intros start [<-|[<-|[]]]; (split; [|vm_compute; reflexivity]);
    intros d Hd; destruct d as [|[|d]]; cbn in *; lia.
Qed.

Example C07_generated_engines_agree_runs :
  py_refine_com_arr false ex_zarr ex_zarr (RTuple [2; 2]) ex_coords 2 "python"%string (3 # 5) true false
  = py_refine_com_arr false ex_zarr ex_zarr (RTuple [2; 2]) ex_coords 2 "numba"%string (3 # 5) true false /\
  py_refine_com_arr false ex_zarr ex_zarr (RTuple [2; 1]) ex_coords 2 "python"%string (3 # 5) true false
  = py_refine_com_arr false ex_zarr ex_zarr (RTuple [2; 1]) ex_coords 2 "numba"%string (3 # 5) true false /\
  exists r1 r2, py_refine_com_arr false ex_zarr ex_zarr (RTuple [2; 2]) ex_coords 2 "numba"%string (3 # 5) true false = Ret [r1; r2] /\
    nth 2 r1 CNone = CQ 529 /\ nth 2 r2 CNone = CQ 3112 /\ nth 4 r1 (CQ 0) = CNone /\ length r1 = 7%nat.
Proof. vm_compute. split; [reflexivity|]. split; [reflexivity|]. eexists. eexists. repeat split; reflexivity. Qed.
