(* C07 -- centre-of-mass refinement is engine-independent and self-consistent.
   Only statements closed by [exact]; proofs live in Proofs/COM.v, the models in
   Model/COM.v (refine_python = _refine, refine_numba = the numba kernels behind
   refine_com_arr's preparation).  pix / rawpix are image and raw_image as
   arbitrary functions from index vectors to integers: every image of every size
   and any number (>= 2) of axes is covered. *)
From Coq Require Import ZArith QArith List Bool Lia.
From TP Require Import Model.COM Proofs.COM.
Import ListNotations.
Open Scope Z_scope.

(* (1) Engine independence.  For every image, raw image, per-axis radii >= 1, image
   shape, shift threshold >= 0, iteration limit, characterize flag and start pixel:
   the numba kernels return exactly the row of the reference loop (same position,
   mass, size^2 column(s), signal, raw_mass) when every window the iteration
   evaluates has non-zero brightness under the mask; otherwise they divide by zero. *)
Theorem C07_engines_agree : forall pix rawpix radius shape thresh max_iterations characterize start,
  (0 <= thresh)%Q -> (2 <= length radius)%nat -> Forall (fun r => 1 <= r) radius ->
  refine_numba pix rawpix radius shape thresh max_iterations characterize start =
  if ref_nonzero pix radius shape thresh (binary_mask radius) (pred (iters_of max_iterations)) start
  then KOk (refine_python pix rawpix radius shape thresh max_iterations characterize start)
  else KDivZero.
Proof. exact engines_agree. Qed.
Print Assumptions C07_engines_agree.

(* (2) Self-consistency of the reference engine.  If the start window lies inside the
   image and no evaluated window is dark, there is ONE window centre c with
     r_d <= c_d <= shape_d - 1 - r_d on every axis,
     every pixel of its mask neighbourhood  nbhd radius c  inside the image and inside
       the ellipse  sum ((x_d - c_d)/r_d)^2 <= 1  around c,
   such that the reported position is the brightness centroid of that neighbourhood
     sum I(x) x_d / sum I(x)   on every axis,
   the reported mass is  sum I(x),  size^2 is the (per-axis) squared gyration radius
   about c, signal is the brightest pixel (not below 0) and raw_mass is  sum Raw(x)
   over the very same neighbourhood -- also when the iteration limit stops the walk
   right after a shift. *)
Theorem C07_python_self_consistent : forall pix rawpix radius shape thresh max_iterations characterize start,
  (2 <= length radius)%nat -> Forall (fun r => 1 <= r) radius ->
  length start = length radius -> length shape = length radius ->
  window_inside radius shape start ->
  ref_nonzero pix radius shape thresh (binary_mask radius) (pred (iters_of max_iterations)) start = true ->
  let out := refine_python pix rawpix radius shape thresh max_iterations characterize start in
  exists c,
    length c = length radius /\ window_inside radius shape c /\
    let pts := nbhd radius c in
    (forall x, In x pts -> in_image shape x /\
                           in_ellipse radius (map (fun d => ix x d - ix c d) (seq 0 (length radius)))) /\
    total pix pts <> 0 /\
    length (o_pos out) = length radius /\
    (forall d, (d < length radius)%nat -> (qx (o_pos out) d == centroid pix pts d)%Q) /\
    o_mass out = total pix pts /\
    o_char out =
      if characterize
      then Some (if isotropic radius then [gyration2 pix c pts]
                 else map (gyration2_axis pix c pts) (seq 0 (length radius)),
                 brightest pix pts, total rawpix pts)
      else None.
Proof. exact python_self_consistent. Qed.
Print Assumptions C07_python_self_consistent.

(* (2') The mask neighbourhood used in (2) is exactly the set of image pixels inside the
   ellipse around c, each listed once -- nothing is cut off by the image border. *)
Theorem C07_neighbourhood_is_ellipse : forall radius shape c,
  Forall (fun r => 1 <= r) radius -> length shape = length radius ->
  window_inside radius shape c ->
  NoDup (nbhd radius c) /\
  forall x, In x (nbhd radius c) <->
            length x = length radius /\ in_image shape x /\
            in_ellipse radius (map (fun d => ix x d - ix c d) (seq 0 (length radius))).
Proof. exact nbhd_is_ellipse. Qed.
Print Assumptions C07_neighbourhood_is_ellipse.

(* (3) The same for the kernels: whenever they return a row at all, it is the
   reference row and it is self-consistent in the sense of (2)
   ([row_is_consistent] is literally the "exists c, ..." of (2)). *)
Theorem C07_numba_self_consistent : forall pix rawpix radius shape thresh max_iterations characterize start out,
  (0 <= thresh)%Q -> (2 <= length radius)%nat -> Forall (fun r => 1 <= r) radius ->
  length start = length radius -> length shape = length radius ->
  window_inside radius shape start ->
  refine_numba pix rawpix radius shape thresh max_iterations characterize start = KOk out ->
  out = refine_python pix rawpix radius shape thresh max_iterations characterize start /\
  row_is_consistent pix rawpix radius shape characterize out.
Proof. exact numba_self_consistent. Qed.
Print Assumptions C07_numba_self_consistent.

(* (4) Why the property excludes dark neighbourhoods: there the engines differ. *)
Theorem C07_zero_mass_differs : forall pix rawpix radius shape thresh max_iterations characterize start,
  (0 <= thresh)%Q -> (2 <= length radius)%nat -> Forall (fun r => 1 <= r) radius ->
  nb_sum pix radius (binary_mask radius) start = 0 ->
  refine_numba pix rawpix radius shape thresh max_iterations characterize start = KDivZero.
Proof. exact zero_mass_differs. Qed.
Print Assumptions C07_zero_mass_differs.

(* ---------- non-vacuity ---------- *)
(* a 7x9 image brightening along x: hypotheses hold, every iteration shifts the window
   one pixel along x, and the iteration limit stops the walk right after a shift
   (the row reports the last EVALUATED window: masses 240 / 529 / 1052 for limits 1 / 2 / 3) *)
Definition ex_img (idx : list Z) : Z :=
  match idx with
  | [y; x] => 1 + x * x * x + y
  | _ => 0
  end.

Example C07_hypotheses_satisfiable :
  window_inside [2; 2] [7; 9] [3; 2] /\
  ref_nonzero ex_img [2; 2] [7; 9] (3 # 5) (binary_mask [2; 2]) (pred (iters_of 2)) [3; 2] = true.
Proof.
  split; [|vm_compute; reflexivity].
  intros d Hd. destruct d as [|[|d]]; cbn in *; try lia.
Qed.

Example C07_walk_moves_and_limit_binds :
  refine_numba ex_img ex_img [2; 2] [7; 9] (3 # 5) 2 true [3; 2]
  = KOk (refine_python ex_img ex_img [2; 2] [7; 9] (3 # 5) 2 true [3; 2]) /\
  o_mass (refine_python ex_img ex_img [2; 2] [7; 9] (3 # 5) 2 true [3; 2]) = 529 /\
  o_mass (refine_python ex_img ex_img [2; 2] [7; 9] (3 # 5) 3 true [3; 2]) = 1052 /\
  o_mass (refine_python ex_img ex_img [2; 2] [7; 9] (3 # 5) 1 true [3; 2]) = 240.
Proof. vm_compute. repeat split; reflexivity. Qed.

(* the premise 0 <= shift_thresh of (1) is needed: below 0 the reference's two
   masked updates (+1 then -1) cancel while the kernels' if/elif only adds *)
Example C07_negative_threshold_differs :
  refine_numba ex_img ex_img [2; 2] [7; 9] (-(1 # 2)) 2 false [3; 2]
  <> KOk (refine_python ex_img ex_img [2; 2] [7; 9] (-(1 # 2)) 2 false [3; 2]).
Proof. vm_compute. discriminate. Qed.

(* ====================================================================================
   Route T for the numba kernels.  Gen/com_kernels.v is REGENERATED from the current
   source of trackpy/refine/center_of_mass.py by tools/py2coq_com.py on every check
   (Python ast -> Coq, statement by statement, fail-closed; vocabulary Model/PyKernel.v):
     numba_refine_2D / numba_refine_2D_c / numba_refine_2D_c_a / numba_refine_3D
   are the Python functions _numba_refine_2D / _2D_c / _2D_c_a / _3D: arrays are nested
   lists with total reads, floats are exact rationals, every division is guarded
   (DivZero), `for` loops recurse on the range length, the per-feature iteration loop with
   its `break` recurses on the iteration budget, results[feat, k] = v updates one cell of
   a list of rows (CQ v, or CSqrt v for np.sqrt(v)); ecc is sliced out.

   (5)-(8) say: called as refine_com_arr calls it -- mask columns  col d (mask_points radius)
   = mask.nonzero()[d], N_mask their number, the size weights r2m / x2m, max_iterations
   raised to >= 1 -- each generated kernel does exactly this ([feats] / [feat_step],
   Model/COMGen.v): for feat = 0 .. N-1 in turn, run the kernel model refine_numba of
   (1)-(4) from the start pixel coords[feat] on the same image (img2 / img3: the model's
   view of the nested lists); if it divides by zero the whole call fails with DivZero;
   otherwise write into row feat of results the cells listed by cells_2D / cells_2D_c /
   cells_2D_c_a / cells_3D (position, mass, sqrt of size^2 column(s), signal, raw_mass at
   the column numbers of the Python; every rational identical, not merely ==) and leave
   every other cell of results as it was.  No hypothesis on the image, the coordinates,
   the radii, the threshold or the results array. *)
From TP Require Import Model.PyKernel Gen.com_kernels Model.COMGen Proofs.COMGen.

(* (5) _numba_refine_2D  (2-D, characterize=False) *)
Theorem C07_generated_2D : forall image rawpix rY rX coords N max_iterations thresh sY sX results,
  let radius := [rY; rX] in
  let mpts := mask_points radius in
  numba_refine_2D image rY rX coords N (Z.max 1 max_iterations) thresh sY sX
                  (col 0 mpts) (col 1 mpts) (Z.of_nat (length mpts)) results =
  feats (feat_step (refine_numba (img2 image) rawpix radius [sY; sX] thresh max_iterations false)
                   (fun feat => [get2 coords feat 0; get2 coords feat 1]) cells_2D)
        (Z.to_nat N) 0 results.
Proof. exact gen_2D_is_model. Qed.
Print Assumptions C07_generated_2D.

(* (6) _numba_refine_2D_c  (2-D, characterize=True, radius[0] == radius[1]) *)
Theorem C07_generated_2D_c : forall raw_image image rY rX coords N max_iterations thresh sY sX cmask smask results,
  rY = rX ->
  let radius := [rY; rX] in
  let mpts := mask_points radius in
  numba_refine_2D_c raw_image image rY rX coords N (Z.max 1 max_iterations) thresh sY sX
                    (col 0 mpts) (col 1 mpts) (Z.of_nat (length mpts)) (r2m radius) cmask smask results =
  feats (feat_step (refine_numba (img2 image) (img2 raw_image) radius [sY; sX] thresh max_iterations true)
                   (fun feat => [get2 coords feat 0; get2 coords feat 1]) cells_2D_c)
        (Z.to_nat N) 0 results.
Proof. exact gen_2D_c_is_model. Qed.
Print Assumptions C07_generated_2D_c.

(* (7) _numba_refine_2D_c_a  (2-D, characterize=True, radius[0] != radius[1]) *)
Theorem C07_generated_2D_c_a : forall raw_image image rY rX coords N max_iterations thresh sY sX cmask smask results,
  rY <> rX ->
  let radius := [rY; rX] in
  let mpts := mask_points radius in
  numba_refine_2D_c_a raw_image image rY rX coords N (Z.max 1 max_iterations) thresh sY sX
                      (col 0 mpts) (col 1 mpts) (Z.of_nat (length mpts)) (x2m radius 0) (x2m radius 1) cmask smask results =
  feats (feat_step (refine_numba (img2 image) (img2 raw_image) radius [sY; sX] thresh max_iterations true)
                   (fun feat => [get2 coords feat 0; get2 coords feat 1]) cells_2D_c_a)
        (Z.to_nat N) 0 results.
Proof. exact gen_2D_c_a_is_model. Qed.
Print Assumptions C07_generated_2D_c_a.

(* (8) _numba_refine_3D  (3-D; characterize and isotropic = (radiusX == radiusY and radiusX == radiusZ)
   are decided inside the kernel: all four combinations) *)
Theorem C07_generated_3D : forall raw_image image rZ rY rX coords N max_iterations thresh characterize sZ sY sX results,
  let radius := [rZ; rY; rX] in
  let mpts := mask_points radius in
  numba_refine_3D raw_image image rZ rY rX coords N (Z.max 1 max_iterations) thresh characterize sZ sY sX
                  (col 0 mpts) (col 1 mpts) (col 2 mpts) (Z.of_nat (length mpts))
                  (r2m radius) (x2m radius 0) (x2m radius 1) (x2m radius 2) results =
  feats (feat_step (refine_numba (img3 image) (img3 raw_image) radius [sZ; sY; sX] thresh max_iterations characterize)
                   (fun feat => [get2 coords feat 0; get2 coords feat 1; get2 coords feat 2])
                   (cells_3D characterize (isotropic radius)))
        (Z.to_nat N) 0 results.
Proof. exact gen_3D_is_model. Qed.
Print Assumptions C07_generated_3D.

(* (9) With (1): for a feature whose visited windows are all bright, the row a generated
   kernel writes is the row of the reference engine refine_python (= _refine). *)
Theorem C07_generated_row_is_reference_row :
  forall pix rawpix radius shape thresh max_iterations characterize start cells feat results,
  (0 <= thresh)%Q -> (2 <= length radius)%nat -> Forall (fun r => 1 <= r) radius ->
  ref_nonzero pix radius shape thresh (binary_mask radius) (pred (iters_of max_iterations)) (start feat) = true ->
  feat_step (refine_numba pix rawpix radius shape thresh max_iterations characterize) start cells feat results =
  Ok (write_cells results feat
        (cells (refine_python pix rawpix radius shape thresh max_iterations characterize (start feat)))).
Proof. exact generated_row_is_reference_row. Qed.
Print Assumptions C07_generated_row_is_reference_row.

(* non-vacuity: the generated 2-D kernels run on the 7x9 image of the examples above
   (two features, limit 2: the first walks and is stopped by the limit, mass 529) *)
Definition ex_arr : list (list Z) :=
  map (fun y => map (fun x => ex_img [y; x]) (zrange 9)) (zrange 7).

Example C07_generated_2D_runs :
  numba_refine_2D ex_arr 2 2 [[3; 2]; [3; 6]] 2 2 (3 # 5) 7 9
                  (col 0 (mask_points [2; 2])) (col 1 (mask_points [2; 2])) 13 [[CNone; CNone; CNone]; [CNone; CNone; CNone]]
  = Ok [[CQ (1601 # 529); CQ (2003 # 529); CQ 529]; [CQ (9350 # 3112); CQ (20222 # 3112); CQ 3112]].
Proof. vm_compute. reflexivity. Qed.

Example C07_generated_2D_c_a_runs :
  numba_refine_2D_c_a ex_arr ex_arr 2 1 [[3; 2]] 1 3 (3 # 5) 7 9
                      (col 0 (mask_points [2; 1])) (col 1 (mask_points [2; 1])) 7
                      (x2m [2; 1] 0) (x2m [2; 1] 1) [] [] [repeat CNone 8]
  = Ok [[CQ (298 # 96); CQ (218 # 96); CQ 96; CSqrt (240 # 96); CSqrt (72 # 96); CNone; CQ 31; CQ 96]].
Proof. vm_compute. reflexivity. Qed.
