(* C13 -- link_partial re-links a frame range without corrupting labels elsewhere.
   Only statements closed by [exact]; models in Model/Partial*.v, proofs in
   Proofs/Partial.v.

   Vocabulary (Model/PartialSpec.v).  T is the table between the in-range
   relinking and reconnect_traj_patch: [oldp r] the label at call time, [part r]
   the id given by the in-range linking (rows of frames s..e-1) or the untouched
   old label (other rows).  [joined T s e] is the equivalence closure of:
   same old label and both before the range / both after the range; same new id
   and both inside; old label shared between a row of frame s and a row before
   the range; old label shared between a row of frame e-1 and a row after it.
   [labelled T lab] pairs every row of T with its final label. *)
From Coq Require Import ZArith List.
From Coq Require Import Permutation Sorted.
From TP Require Import Model.Partial Model.PartialSpec Model.PartialCheck Proofs.Partial Proofs.PartialTable.
Import ListNotations.
Open Scope Z_scope.

(* reconnect_traj_patch (as repaired): for EVERY table, EVERY range s < e, every
   valid old labelling (non-negative, unique per frame, tracks on consecutive
   frames) and every in-range labelling that is unique per frame, the function
   returns (its fresh-id generator never runs dry), rows/frames are preserved in
   place, rows before the range keep their label, labels are unique per frame,
   two rows share a label exactly when they are joined, and rows on one side
   outside the range keep their grouping. *)
Theorem C13_reconnect_valid_and_joined : forall (T : list row) (s e : Z),
  NoDup (map rid T) -> s < e -> valid_old T -> valid_new T s e -> untouched_outside T s e ->
  exists out, reconnect T s e = POk out /\
    map rid out = map rid T /\ map frame out = map frame T /\ map oldp out = map oldp T /\
    (forall r l, In (r, l) (labelled T (map part out)) -> before s r -> l = oldp r) /\
    labels_unique_per_frame T (map part out) /\
    share_label_iff_joined T s e (map part out) /\
    outside_grouping_kept T s e (map part out).
Proof. exact reconnect_correct. Qed.
Print Assumptions C13_reconnect_valid_and_joined.

(* link_partial as a whole.  f is the caller's table (label in [part], mirrored
   in [oldp]); (a, b) the requested link_range, meeting the table's frame span
   [lo, hi); the effective range is [max a lo, min b hi).  [linker i] is what
   link_iter yields for frame i: one id per feature of the frame, no id twice
   (C01) -- otherwise arbitrary, so search ranges smaller or larger than the one
   behind the old labels are covered.  Then link_partial returns; the table T it
   reconnects is the caller's rows ordered by frame (values kept), whose rows of
   an in-range frame i carry, in order, the ids [linker i] (boolean-mask
   assignment; frames without features are skipped) and whose other rows are
   untouched; the result has the same rows in the same places and its labels
   satisfy the specification (also when the range covers the whole table and
   no reconnection takes place). *)
Theorem C13_link_partial : forall (f : list row) (a b : Z) (linker : Z -> list Z) (lo hi : Z),
  frame_span f = Some (lo, hi) -> a < b -> a < hi -> lo < b ->
  NoDup (map rid f) -> (forall r, In r f -> oldp r = part r) -> valid_old f ->
  valid_linker f (Z.max a lo) (Z.min b hi) linker ->
  exists T out,
    relinked lo hi (sort_rows f) (a, b) linker = Some T /\
    link_partial f (a, b) linker = POk out /\
    Permutation (map key_out T) (map key_out f) /\
    StronglySorted Z.le (map frame T) /\
    (forall i, Z.max a lo <= i < Z.min b hi -> map part (filter (fun r => frame r =? i) T) = linker i) /\
    untouched_outside T (Z.max a lo) (Z.min b hi) /\
    map key_out out = map key_out T /\
    (forall r l, In (r, l) (labelled T (map part out)) -> before (Z.max a lo) r -> l = oldp r) /\
    labels_unique_per_frame T (map part out) /\
    share_label_iff_joined T (Z.max a lo) (Z.min b hi) (map part out) /\
    outside_grouping_kept T (Z.max a lo) (Z.min b hi) (map part out).
Proof. exact link_partial_correct. Qed.
Print Assumptions C13_link_partial.

(* the monitor run by vp/props/c13.py on the implementation's own labels is
   sound: if it accepts the observed labels [lab], the hypotheses hold and
   [lab] satisfies the three clauses of the specification *)
Theorem C13_monitor_sound : forall (T : list row) (s e : Z) (lab : list Z),
  monitor T s e lab = true ->
  (NoDup (map rid T) /\ s < e /\ valid_old T /\ valid_new T s e /\ untouched_outside T s e) /\
  labels_unique_per_frame T lab /\ share_label_iff_joined T s e lab /\ outside_grouping_kept T s e lab.
Proof. exact monitor_sound. Qed.
Print Assumptions C13_monitor_sound.

(* the pre-fix function (DESIGN 4: F4, F5) breaks the property on valid inputs *)
Theorem C13_refuted_collision :
  hyps_ok F4_table 1 5 = true /\
  exists out, reconnect_pinned F4_table 1 5 = POk out /\ ~ labels_unique_per_frame F4_table (map part out).
Proof. exact pinned_refuted_collision. Qed.
Print Assumptions C13_refuted_collision.

Theorem C13_refuted_fresh :
  hyps_ok F5_table 1 4 = true /\
  exists out, reconnect_pinned F5_table 1 4 = POk out /\ ~ labels_unique_per_frame F5_table (map part out).
Proof. exact pinned_refuted_fresh. Qed.
Print Assumptions C13_refuted_fresh.

(* non-vacuity: the hypotheses are met by non-trivial tables (the two witnesses
   above, on which the repaired function answers correctly), and by a range
   that contains an empty frame (frame 2 of gap_table: every track ends there) *)
Example C13_hyps_F4 : hyps_ok F4_table 1 5 = true /\
  option_map (map part) (match reconnect F4_table 1 5 with POk o => Some o | _ => None end)
  = Some [5; 5; 5; 0; 5; 0; 5; 0; 5].
Proof. vm_compute. split; reflexivity. Qed.
Example C13_hyps_F5 : hyps_ok F5_table 1 4 = true /\
  option_map (map part) (match reconnect F5_table 1 4 with POk o => Some o | _ => None end)
  = Some [1; 1; 0; 1; 0; 3; 1; 1].
Proof. vm_compute. split; reflexivity. Qed.
Example C13_empty_frame : hyps_ok gap_table 1 4 = true /\
  option_map (map part) (match reconnect gap_table 1 4 with POk o => Some o | _ => None end)
  = Some [5; 6; 6; 5; 9; 8; 8; 9].
Proof. vm_compute. split; reflexivity. Qed.

(* the hypotheses of C13_link_partial are met by the (shuffled) F4 table with the
   in-range ids the implementation produced; the model's answer is the
   implementation's answer (5,5,5,0,5,5,0,5,0 by frame) *)
Example C13_link_partial_instance :
  frame_span F4_input = Some (0, 6) /\ hyps_ok F4_input 0 1 = true /\
  (forall r, In r F4_input -> oldp r = part r) /\
  valid_linker F4_input (Z.max 1 0) (Z.min 5 6) F4_linker /\
  option_map (map (fun r => (rid r, frame r, part r)))
     (match link_partial F4_input (1, 5) F4_linker with POk o => Some o | PRaises _ => None end)
  = Some [(1%nat, 0, 5); (3%nat, 1, 5); (5%nat, 2, 5); (2%nat, 3, 0); (6%nat, 3, 5);
          (0%nat, 4, 5); (8%nat, 4, 0); (4%nat, 5, 5); (7%nat, 5, 0)].
Proof. exact link_partial_instance. Qed.
