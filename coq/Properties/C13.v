(* C13 -- link_partial re-links a frame range without corrupting labels elsewhere.
   Only statements closed by [exact]; models in Model/Partial*.v, proofs in
   Proofs/Partial.v.

   Vocabulary (Model/PartialSpec.v).  T is the table between the in-range
   relinking and reconnect_traj_patch: [oldp r] the label at call time, [part r]
   the id given by the in-range linking (rows of frames s..e-1) or the untouched
   old label (other rows).  [joined T s e] is the equivalence closure of:
   same old label and both before the range / both after the range; same new id
   and both inside; old label shared between a row of frame s and a row before
   the range; old label shared between a row of frame e-1 and a row after it.
   [labelled T lab] pairs every row of T with its final label. *)
From Coq Require Import ZArith List.
From Coq Require Import Permutation Sorted.
From TP Require Import Model.Partial Model.PartialSpec Model.PartialCheck Proofs.Partial Proofs.PartialTable.
Import ListNotations.
Open Scope Z_scope.

(* reconnect_traj_patch (as repaired): for EVERY table, EVERY range s < e, every
   valid old labelling (non-negative, unique per frame, tracks on consecutive
   frames) and every in-range labelling that is unique per frame, the function
   returns (its fresh-id generator never runs dry), rows/frames are preserved in
   place, rows before the range keep their label, labels are unique per frame,
   two rows share a label exactly when they are joined, and rows on one side
   outside the range keep their grouping. *)
Theorem C13_reconnect_valid_and_joined : forall (T : list row) (s e : Z),
  NoDup (map rid T) -> s < e -> valid_old T -> valid_new T s e -> untouched_outside T s e ->
  exists out, reconnect T s e = POk out /\
    map rid out = map rid T /\ map frame out = map frame T /\ map oldp out = map oldp T /\
    (forall r l, In (r, l) (labelled T (map part out)) -> before s r -> l = oldp r) /\
    labels_unique_per_frame T (map part out) /\
    share_label_iff_joined T s e (map part out) /\
    outside_grouping_kept T s e (map part out).
Proof. exact reconnect_correct. Qed.
Print Assumptions C13_reconnect_valid_and_joined.

(* link_partial as a whole.  f is the caller's table (label in [part], mirrored
   in [oldp]); (a, b) the requested link_range, meeting the table's frame span
   [lo, hi); the effective range is [max a lo, min b hi).  [linker i] is what
   link_iter yields for frame i: one id per feature of the frame, no id twice
   (C01) -- otherwise arbitrary, so search ranges smaller or larger than the one
   behind the old labels are covered.  Then link_partial returns; the table T it
   reconnects is the caller's rows ordered by frame (values kept), whose rows of
   an in-range frame i carry, in order, the ids [linker i] (boolean-mask
   assignment; frames without features are skipped) and whose other rows are
   untouched; the result has the same rows in the same places and its labels
   satisfy the specification (also when the range covers the whole table and
   no reconnection takes place). *)
Theorem C13_link_partial : forall (f : list row) (a b : Z) (linker : Z -> list Z) (lo hi : Z),
  frame_span f = Some (lo, hi) -> a < b -> a < hi -> lo < b ->
  NoDup (map rid f) -> (forall r, In r f -> oldp r = part r) -> valid_old f ->
  valid_linker f (Z.max a lo) (Z.min b hi) linker ->
  exists T out,
    relinked lo hi (sort_rows f) (a, b) linker = Some T /\
    link_partial f (a, b) linker = POk out /\
    Permutation (map key_out T) (map key_out f) /\
    StronglySorted Z.le (map frame T) /\
    (forall i, Z.max a lo <= i < Z.min b hi -> map part (filter (fun r => frame r =? i) T) = linker i) /\
    untouched_outside T (Z.max a lo) (Z.min b hi) /\
    map key_out out = map key_out T /\
    (forall r l, In (r, l) (labelled T (map part out)) -> before (Z.max a lo) r -> l = oldp r) /\
    labels_unique_per_frame T (map part out) /\
    share_label_iff_joined T (Z.max a lo) (Z.min b hi) (map part out) /\
    outside_grouping_kept T (Z.max a lo) (Z.min b hi) (map part out).
Proof. exact link_partial_correct. Qed.
Print Assumptions C13_link_partial.

(* the monitor run by vp/props/c13.py on the implementation's own labels is
   sound: if it accepts the observed labels [lab], the hypotheses hold and
   [lab] satisfies the three clauses of the specification *)
Theorem C13_monitor_sound : forall (T : list row) (s e : Z) (lab : list Z),
  monitor T s e lab = true ->
  (NoDup (map rid T) /\ s < e /\ valid_old T /\ valid_new T s e /\ untouched_outside T s e) /\
  labels_unique_per_frame T lab /\ share_label_iff_joined T s e lab /\ outside_grouping_kept T s e lab.
Proof. exact monitor_sound. Qed.
Print Assumptions C13_monitor_sound.

(* the pre-fix function (DESIGN 4: F4, F5) breaks the property on valid inputs *)
Theorem C13_refuted_collision :
  hyps_ok F4_table 1 5 = true /\
  exists out, reconnect_pinned F4_table 1 5 = POk out /\ ~ labels_unique_per_frame F4_table (map part out).
Proof. exact pinned_refuted_collision. Qed.
Print Assumptions C13_refuted_collision.

Theorem C13_refuted_fresh :
  hyps_ok F5_table 1 4 = true /\
  exists out, reconnect_pinned F5_table 1 4 = POk out /\ ~ labels_unique_per_frame F5_table (map part out).
Proof. exact pinned_refuted_fresh. Qed.
Print Assumptions C13_refuted_fresh.

(* non-vacuity: the hypotheses are met by non-trivial tables (the two witnesses
   above, on which the repaired function answers correctly), and by a range
   that contains an empty frame (frame 2 of gap_table: every track ends there) *)
Example C13_hyps_F4 : hyps_ok F4_table 1 5 = true /\
  option_map (map part) (match reconnect F4_table 1 5 with POk o => Some o | _ => None end)
  = Some [5; 5; 5; 0; 5; 0; 5; 0; 5].
Proof. vm_compute. split; reflexivity. Qed.
Example C13_hyps_F5 : hyps_ok F5_table 1 4 = true /\
  option_map (map part) (match reconnect F5_table 1 4 with POk o => Some o | _ => None end)
  = Some [1; 1; 0; 1; 0; 3; 1; 1].
Proof. vm_compute. split; reflexivity. Qed.
Example C13_empty_frame : hyps_ok gap_table 1 4 = true /\
  option_map (map part) (match reconnect gap_table 1 4 with POk o => Some o | _ => None end)
  = Some [5; 6; 6; 5; 9; 8; 8; 9].
Proof. vm_compute. split; reflexivity. Qed.

(* the hypotheses of C13_link_partial are met by the (shuffled) F4 table with the
   in-range ids the implementation produced; the model's answer is the
   implementation's answer (5,5,5,0,5,5,0,5,0 by frame) *)
Example C13_link_partial_instance :
  frame_span F4_input = Some (0, 6) /\ hyps_ok F4_input 0 1 = true /\
  (forall r, In r F4_input -> oldp r = part r) /\
  valid_linker F4_input (Z.max 1 0) (Z.min 5 6) F4_linker /\
  option_map (map (fun r => (rid r, frame r, part r)))
     (match link_partial F4_input (1, 5) F4_linker with POk o => Some o | PRaises _ => None end)
  = Some [(1%nat, 0, 5); (3%nat, 1, 5); (5%nat, 2, 5); (2%nat, 3, 0); (6%nat, 3, 5);
          (0%nat, 4, 5); (8%nat, 4, 0); (4%nat, 5, 5); (7%nat, 5, 0)].
Proof. exact link_partial_instance. Qed.

(* ==== route T: the same theorems about the functions GENERATED from the current
   text of trackpy/linking/partial.py (Gen/partial.v, written by
   tools/py2coq_partial.py on every run of the check; vocabulary and the list of
   pandas / itertools primitives in Model/PyPartial.v).
   Python dicts are insertion-ordered with in-place replacement; Python sets are
   duplicate-free lists.  The source iterates over a set exactly once
   (zip(remaining, gen_ids)); its iteration order is the explicit parameter [ord]
   of the generated functions, and the theorems hold for EVERY order (every
   [ord] that returns a permutation of its argument). ==== *)
From TP Require Import Model.PyPartial Model.Partial2 Proofs.Partial2.
From TP Require Gen.partial.

(* the generated reconnect_traj_patch, run with the model's iteration order, IS
   the hand-written model [reconnect] -- on every table, every range (also
   start >= stop: both raise), provided the in-range ids of the rows of the first
   frame that carry a non-negative old label are pairwise distinct (C01; without
   it Python's dict drops an overwritten old id from `claimed` and the model's
   association list does not) *)
Theorem C13_gen_reconnect_equals_model : forall (T : list row) (s e : Z),
  NoDup (map fst (filter (fun po => negb (snd po <? 0)) (pairs_at s T))) ->
  Gen.partial.reconnect_traj_patch (fun l => l) T (s, e) = reconnect T s e.
Proof. exact gen_reconnect_eq_model. Qed.
Print Assumptions C13_gen_reconnect_equals_model.

(* for any iteration order it is [reconnect] with the fresh ids handed to the
   leftover in-range tracks in that order (Model/Partial2.v, reconnect_ord) *)
Theorem C13_gen_reconnect_equals_model_any_order : forall (ord : list Z -> list Z) (T : list row) (s e : Z),
  (forall l, Permutation (ord l) l) ->
  NoDup (map fst (filter (fun po => negb (snd po <? 0)) (pairs_at s T))) ->
  Gen.partial.reconnect_traj_patch ord T (s, e) = reconnect_ord ord T s e.
Proof. exact gen_reconnect_eq. Qed.
Print Assumptions C13_gen_reconnect_equals_model_any_order.

(* C13_reconnect_valid_and_joined, about the generated function, for every
   iteration order of the set `remaining` *)
Theorem C13_gen_reconnect_valid_and_joined : forall (ord : list Z -> list Z) (T : list row) (s e : Z),
  (forall l, Permutation (ord l) l) ->
  NoDup (map rid T) -> s < e -> valid_old T -> valid_new T s e -> untouched_outside T s e ->
  exists out, Gen.partial.reconnect_traj_patch ord T (s, e) = POk out /\
    map rid out = map rid T /\ map frame out = map frame T /\ map oldp out = map oldp T /\
    (forall r l, In (r, l) (labelled T (map part out)) -> before s r -> l = oldp r) /\
    labels_unique_per_frame T (map part out) /\
    share_label_iff_joined T s e (map part out) /\
    outside_grouping_kept T s e (map part out).
Proof. exact gen_reconnect_correct. Qed.
Print Assumptions C13_gen_reconnect_valid_and_joined.

(* the generated link_partial, for ALL inputs: full_range, assert, clamping, sort,
   copy of the labels when the range is partial, the loop over link_iter with its
   mask assignment (empty id lists skipped, wrong length raises), then the
   generated reconnect_traj_patch -- i.e. the model's link_partial with that
   reconnection step plugged in (Model/Partial2.v, link_partial2) *)
Theorem C13_gen_link_partial_structure : forall (ord : list Z -> list Z) (linker : Z -> list Z) (f : list row) (a b : Z),
  Gen.partial.link_partial ord linker f (a, b)
  = link_partial2 (fun t s e => Gen.partial.reconnect_traj_patch ord t (s, e)) f (a, b) linker.
Proof. exact gen_link_partial_unfold. Qed.
Print Assumptions C13_gen_link_partial_structure.

(* under the hypotheses of C13_link_partial, the generated link_partial with the
   model's iteration order IS the hand-written model *)
Theorem C13_gen_link_partial_equals_model : forall (f : list row) (a b : Z) (linker : Z -> list Z) (lo hi : Z),
  frame_span f = Some (lo, hi) -> a < b -> a < hi -> lo < b ->
  NoDup (map rid f) -> (forall r, In r f -> oldp r = part r) -> valid_old f ->
  valid_linker f (Z.max a lo) (Z.min b hi) linker ->
  Gen.partial.link_partial (fun l => l) linker f (a, b) = Model.Partial.link_partial f (a, b) linker.
Proof. exact gen_link_partial_eq_model_valid. Qed.
Print Assumptions C13_gen_link_partial_equals_model.

(* C13_link_partial, about the generated function, for every iteration order *)
Theorem C13_gen_link_partial : forall (ord : list Z -> list Z) (f : list row) (a b : Z) (linker : Z -> list Z) (lo hi : Z),
  (forall l, Permutation (ord l) l) ->
  frame_span f = Some (lo, hi) -> a < b -> a < hi -> lo < b ->
  NoDup (map rid f) -> (forall r, In r f -> oldp r = part r) -> valid_old f ->
  valid_linker f (Z.max a lo) (Z.min b hi) linker ->
  exists T out,
    relinked lo hi (sort_rows f) (a, b) linker = Some T /\
    Gen.partial.link_partial ord linker f (a, b) = POk out /\
    Permutation (map key_out T) (map key_out f) /\
    StronglySorted Z.le (map frame T) /\
    (forall i, Z.max a lo <= i < Z.min b hi -> map part (filter (fun r => frame r =? i) T) = linker i) /\
    untouched_outside T (Z.max a lo) (Z.min b hi) /\
    map key_out out = map key_out T /\
    (forall r l, In (r, l) (labelled T (map part out)) -> before (Z.max a lo) r -> l = oldp r) /\
    labels_unique_per_frame T (map part out) /\
    share_label_iff_joined T (Z.max a lo) (Z.min b hi) (map part out) /\
    outside_grouping_kept T (Z.max a lo) (Z.min b hi) (map part out).
Proof. exact gen_link_partial_correct. Qed.
Print Assumptions C13_gen_link_partial.

(* non-vacuity / execution: the generated functions run; on the F4 witness they
   give the implementation's labels, also with the leftover tracks visited in
   reverse order (the labels then differ by a renaming of fresh ids at most) *)
Example C13_gen_runs_F4 :
  option_map (map part) (match Gen.partial.reconnect_traj_patch (fun l => l) F4_table (1, 5) with POk o => Some o | _ => None end)
  = Some [5; 5; 5; 0; 5; 0; 5; 0; 5] /\
  option_map (map (fun r => (rid r, frame r, part r)))
     (match Gen.partial.link_partial (@rev Z) F4_linker F4_input (1, 5) with POk o => Some o | PRaises _ => None end)
  = Some [(1%nat, 0, 5); (3%nat, 1, 5); (5%nat, 2, 5); (2%nat, 3, 0); (6%nat, 3, 5);
          (0%nat, 4, 5); (8%nat, 4, 0); (4%nat, 5, 5); (7%nat, 5, 0)].
Proof. vm_compute. split; reflexivity. Qed.
