(* C04 — linking jobs are isolated from one another and reproducible. *)
From Coq Require Import ZArith List.
From TP Require Import Model.Assign Model.Link Model.Jobs Proofs.Jobs.
Import ListNotations.

(* For EVERY schedule (interleaving of Start/Step operations of any number of jobs)
   the sequence of label lists job j produces equals the one it produces when only
   its own operations run - whatever the other jobs do, whatever global counters
   and other jobs' states were before. *)
Theorem C04_isolated : forall cfg j ops g (s : store) g' (s' : store),
  s j = s' j ->
  proj j (exec cfg (g, s) ops) = proj j (exec cfg (g', s') (own j ops)).
Proof. exact isolation. Qed.
Print Assumptions C04_isolated.

(* Repeating a job (same own operations) gives the same labels in any two histories. *)
Theorem C04_reproducible : forall cfg j ops1 ops2 g1 (s1 : store) g2 (s2 : store),
  s1 j = s2 j -> own j ops1 = own j ops2 ->
  proj j (exec cfg (g1, s1) ops1) = proj j (exec cfg (g2, s2) ops2).
Proof. exact reproducible. Qed.
Print Assumptions C04_reproducible.

(* The code before the fix (one process-wide trajectory-id counter reset by every
   init_level): a second job started between two steps of the first makes the first
   reuse label 1 within one frame; the repaired model gives 4.  This schedule is the
   regression case replayed on the implementation by the check. *)
Theorem C04_shared_counter_refuted :
  proj 0 (exec_shared cfg0 ({| point_ctr := 0; track_ctr := 0 |}, no_jobs) witness_sched)
  = [(0%nat, Some [0; 1; 2]%nat); (0%nat, Some [0; 1; 2; 3]%nat); (0%nat, Some [0; 1; 2; 3; 1]%nat)]
  /\ proj 0 (exec cfg0 ({| point_ctr := 0; track_ctr := 0 |}, no_jobs) witness_sched)
  = [(0%nat, Some [0; 1; 2]%nat); (0%nat, Some [0; 1; 2; 3]%nat); (0%nat, Some [0; 1; 2; 3; 4]%nat)].
Proof. exact shared_counter_refuted. Qed.
Print Assumptions C04_shared_counter_refuted.
