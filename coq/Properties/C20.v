(* C20 -- trajectory filters are exact; every stage accepts the previous stage's
   table and its numbers do not depend on the index the table arrives with.
   Only statements closed by [exact]; proofs live in Proofs/. *)
From Coq Require Import ZArith QArith String List Bool.
From TP Require Import Model.TrajFilter Model.TrajLayout Model.TrajData
                       Proofs.TrajFilter Proofs.TrajLayout Proofs.TrajData.
Import ListNotations.

(* ---------- (a) the filters ------------------------------------------------------------ *)

(* filter_stubs (pandas groupby('particle').filter: sorted group keys, positions of each
   passing group, np.sort of the concatenation, take) returns exactly the rows -- same
   values, same order -- whose trajectory has at least [threshold] observations, an
   observation of trajectory p being a row labelled p that has a frame number. *)
Theorem C20_stubs_exact : forall (rows : list row) (threshold : Z),
  filter_stubs rows threshold =
  filter (fun r => match pid r with
                   | Some p => (threshold <=? observations p rows)%Z
                   | None => false                  (* NaN label: belongs to no trajectory *)
                   end) rows.
Proof. exact filter_stubs_exact. Qed.
Print Assumptions C20_stubs_exact.

(* filter_clusters returns exactly the rows of the trajectories whose mean size (arithmetic
   mean of the sizes recorded for the trajectory) is strictly below the cut. *)
Theorem C20_clusters_exact : forall (rows : list row) (cut : Q),
  filter_clusters rows cut =
  filter (fun r => match pid r with
                   | Some p => match qmean (traj_sizes p rows) with
                               | Some m => Qltb m cut
                               | None => false      (* no size recorded: mean is NaN *)
                               end
                   | None => false
                   end) rows.
Proof. exact filter_clusters_exact. Qed.
Print Assumptions C20_clusters_exact.

(* the executable tests above mean what they say *)
Theorem C20_mean_and_cut_meaning :
  (forall a b : Q, Qltb a b = true <-> (a < b)%Q) /\
  (forall l m, qmean l = Some m -> l <> [] /\ (m * inject_Z (Z.of_nat (length l)) == qsum l)%Q).
Proof. exact (conj Qltb_lt qmean_spec). Qed.
Print Assumptions C20_mean_and_cut_meaning.

(* trajectories are kept or dropped whole *)
Theorem C20_whole_trajectories : forall rows r r',
  (forall t, In r (filter_stubs rows t) -> In r' rows -> pid r' = pid r -> In r' (filter_stubs rows t)) /\
  (forall c, In r (filter_clusters rows c) -> In r' rows -> pid r' = pid r -> In r' (filter_clusters rows c)).
Proof.
  exact (fun rows r r' => conj (fun t => filter_stubs_whole_trajectories rows t r r')
                               (fun c => filter_clusters_whole_trajectories rows c r r')).
Qed.
Print Assumptions C20_whole_trajectories.

(* ---------- (b) composition -------------------------------------------------------------- *)

(* For the code as it is now: starting from ANY table that has the trajectory columns
   (frame, particle, x, y, size) -- whatever its index levels are called -- every pipeline of
   producer stages (link, link_partial, filter_stubs, filter_clusters, subtract_drift), of any
   length, runs without pandas' "both an index level and a column label" error or a KeyError,
   keeps the columns, and every consumer (the five producers, compute_drift, msd, imsd, emsd,
   cluster, proximity, relate_frames) accepts the result. *)
Theorem C20_compose : forall (ps : list producer) (s : schema),
  traj_cols s ->
  exists s', run_pipeline fixed ps s = Ok s' /\ traj_cols s' /\ cols s' = cols s /\
             forall c : consumer, exists r, run_consumer fixed c s' = Ok r.
Proof. exact compose. Qed.
Print Assumptions C20_compose.

(* Starting from a default-indexed table the index layout after any pipeline is one of five:
   unnamed; 'frame'; ('frame','particle'); 'frame_index'; ('frame_index','particle'). *)
Theorem C20_reachable_layouts : forall ps s s',
  traj_cols s -> idx s = [None] -> run_pipeline fixed ps s = Ok s' ->
  In (idx s') [ [None]; [Some "frame"]; [Some "frame"; Some "particle"];
                [Some "frame_index"]; [Some "frame_index"; Some "particle"] ]%string
  /\ cols s' = cols s.
Proof. exact reachable_from_default. Qed.
Print Assumptions C20_reachable_layouts.

(* The code before the `fix:` commits: among the 60 producer->consumer pairs on a
   default-indexed table, exactly the eight of DESIGN F9 raise the ambiguity error. *)
Theorem C20_compose_refuted :
  filter (fun pc => is_ambiguous (pair_outcome pinned pc)) all_pairs =
  [ (PFilterStubs, CCluster); (PFilterClusters, CCluster);
    (PSubtractDrift, CProd PLink); (PSubtractDrift, CProd PLinkPartial);
    (PSubtractDrift, CProd PSubtractDrift); (PSubtractDrift, CComputeDrift);
    (PSubtractDrift, CImsd); (PSubtractDrift, CCluster) ].
Proof. exact pinned_refuted. Qed.
Print Assumptions C20_compose_refuted.

(* Same numbers: for every pipeline of producers of any length and every numeric kernel
   (linker labels, filter decisions, drift curve, drift subtraction -- arbitrary functions of
   the rows in the order the stage presents them), the rows a pipeline produces from a table
   equal the rows it produces from the same data default-indexed, and so does compute_drift
   of the result. *)
Theorem C20_same_numbers :
  forall (R : Type) (fr part : R -> Z) (k_link k_link_partial : list R -> list R)
         (k_keep_stubs k_keep_clusters : list R -> R -> bool)
         (drift_t : Type) (k_drift : list R -> drift_t) (k_sub : drift_t -> Z -> R -> R)
         (ps : list dstage) (b : body R),
  let run := d_run R fr part k_link k_link_partial k_keep_stubs k_keep_clusters drift_t k_drift k_sub ps in
  map snd (run b) = map snd (run (default_indexed R b)) /\
  d_compute_drift R fr part drift_t k_drift (run b) =
  d_compute_drift R fr part drift_t k_drift (run (default_indexed R b)).
Proof. exact same_numbers. Qed.
Print Assumptions C20_same_numbers.

(* subtract_drift is the one stage that READS an index (Series.sub(level='frame')): the value
   it reads is the row's own frame number -- each row gets the drift at its own frame
   subtracted, rows come out ordered by (frame, particle) and indexed by (frame, particle). *)
Theorem C20_subtract_drift_alignment :
  forall (R : Type) (fr part : R -> Z) (drift_t : Type) (k_drift : list R -> drift_t)
         (k_sub : drift_t -> Z -> R -> R) (b : body R),
  d_subtract_drift R fr part drift_t k_drift k_sub b =
  let d := k_drift (isort (by_particle_frame R fr part) (map snd b)) in
  map (fun r => ([fr r; part r], k_sub d (fr r) r)) (isort (by_frame_particle R fr part) (map snd b)).
Proof. exact subtract_drift_rows. Qed.
Print Assumptions C20_subtract_drift_alignment.

(* ---------- non-vacuity ------------------------------------------------------------------- *)
Definition ex_rows : list row :=
  [ {| rid := 0; pid := Some 7%Z; frame := Some 0%Z; size := Some (3#1) |};
    {| rid := 1; pid := Some 2%Z; frame := Some 0%Z; size := Some (1#1) |};
    {| rid := 2; pid := Some 7%Z; frame := Some 1%Z; size := Some (4#1) |};
    {| rid := 3; pid := None;     frame := Some 1%Z; size := Some (1#1) |};
    {| rid := 4; pid := Some 7%Z; frame := None;     size := None |};
    {| rid := 5; pid := Some 2%Z; frame := Some 2%Z; size := Some (2#1) |} ].
(* trajectory 7 has three rows but two observations; trajectory 2 has two *)
Example ex_stubs_2 : map rid (filter_stubs ex_rows 2) = [0; 1; 2; 4; 5]%nat.
Proof. reflexivity. Qed.
Example ex_stubs_3 : map rid (filter_stubs ex_rows 3) = [].
Proof. reflexivity. Qed.
(* mean sizes: 7 -> 7/2, 2 -> 3/2 *)
Example ex_clusters : map rid (filter_clusters ex_rows (7#2)) = [1; 5]%nat.
Proof. reflexivity. Qed.
Example ex_clusters_quantile : map rid (filter_clusters_q ex_rows (1#2)) = [1; 5]%nat.
Proof. reflexivity. Qed.
(* the hypothesis of C20_compose / C20_reachable_layouts is met by the ordinary table, and
   by the oddly indexed one that subtract_drift returns *)
Example ex_traj_cols : traj_cols default_table /\
  traj_cols {| idx := [Some "frame"; Some "particle"]%string; cols := cols default_table |}.
Proof. split; repeat split. Qed.
Example ex_pipeline :
  run_pipeline fixed [PSubtractDrift; PLink; PFilterStubs; PSubtractDrift; PLinkPartial] default_table
  = Ok {| idx := [Some "frame_index"; Some "particle"]%string; cols := cols default_table |}.
Proof. reflexivity. Qed.
(* a table that lacks a column is rejected by the model, so acceptance is not built in *)
Example ex_missing :
  run_producer fixed PFilterStubs {| idx := [None]; cols := ["x"; "y"; "frame"]%string |} = Missing.
Proof. reflexivity. Qed.
