(* C20 -- trajectory filters are exact; every stage accepts the previous stage's
   table and its numbers do not depend on the index the table arrives with.
   Only statements closed by [exact]; proofs live in Proofs/. *)
From Coq Require Import ZArith QArith String List Bool.
From TP Require Import Model.TrajFilter Model.TrajLayout Model.TrajData
                       Proofs.TrajFilter Proofs.TrajLayout Proofs.TrajData.
Import ListNotations.

(* ---------- (a) the filters ------------------------------------------------------------ *)

(* filter_stubs (pandas groupby('particle').filter: sorted group keys, positions of each
   passing group, np.sort of the concatenation, take) returns exactly the rows -- same
   values, same order -- whose trajectory has at least [threshold] observations, an
   observation of trajectory p being a row labelled p that has a frame number. *)
Theorem C20_stubs_exact : forall (rows : list row) (threshold : Z),
  filter_stubs rows threshold =
  filter (fun r => match pid r with
                   | Some p => (threshold <=? observations p rows)%Z
                   | None => false                  (* NaN label: belongs to no trajectory *)
                   end) rows.
Proof. exact filter_stubs_exact. Qed.
Print Assumptions C20_stubs_exact.

(* filter_clusters returns exactly the rows of the trajectories whose mean size (arithmetic
   mean of the sizes recorded for the trajectory) is strictly below the cut. *)
Theorem C20_clusters_exact : forall (rows : list row) (cut : Q),
  filter_clusters rows cut =
  filter (fun r => match pid r with
                   | Some p => match qmean (traj_sizes p rows) with
                               | Some m => Qltb m cut
                               | None => false      (* no size recorded: mean is NaN *)
                               end
                   | None => false
                   end) rows.
Proof. exact filter_clusters_exact. Qed.
Print Assumptions C20_clusters_exact.

(* the executable tests above mean what they say *)
Theorem C20_mean_and_cut_meaning :
  (forall a b : Q, Qltb a b = true <-> (a < b)%Q) /\
  (forall l m, qmean l = Some m -> l <> [] /\ (m * inject_Z (Z.of_nat (length l)) == qsum l)%Q).
Proof. exact (conj Qltb_lt qmean_spec). Qed.
Print Assumptions C20_mean_and_cut_meaning.

(* trajectories are kept or dropped whole *)
Theorem C20_whole_trajectories : forall rows r r',
  (forall t, In r (filter_stubs rows t) -> In r' rows -> pid r' = pid r -> In r' (filter_stubs rows t)) /\
  (forall c, In r (filter_clusters rows c) -> In r' rows -> pid r' = pid r -> In r' (filter_clusters rows c)).
Proof.
  exact (fun rows r r' => conj (fun t => filter_stubs_whole_trajectories rows t r r')
                               (fun c => filter_clusters_whole_trajectories rows c r r')).
Qed.
Print Assumptions C20_whole_trajectories.

(* ---------- (b) composition -------------------------------------------------------------- *)

(* For the code as it is now: starting from ANY table that has the trajectory columns
   (frame, particle, x, y, size) -- whatever its index levels are called -- every pipeline of
   producer stages (link, link_partial, filter_stubs, filter_clusters, subtract_drift), of any
   length, runs without pandas' "both an index level and a column label" error or a KeyError,
   keeps the columns, and every consumer (the five producers, compute_drift, msd, imsd, emsd,
   cluster, proximity, relate_frames) accepts the result. *)
Theorem C20_compose : forall (ps : list producer) (s : schema),
  traj_cols s ->
  exists s', run_pipeline fixed ps s = Ok s' /\ traj_cols s' /\ cols s' = cols s /\
             forall c : consumer, exists r, run_consumer fixed c s' = Ok r.
Proof. exact compose. Qed.
Print Assumptions C20_compose.

(* Starting from a default-indexed table the index layout after any pipeline is one of five:
   unnamed; 'frame'; ('frame','particle'); 'frame_index'; ('frame_index','particle'). *)
Theorem C20_reachable_layouts : forall ps s s',
  traj_cols s -> idx s = [None] -> run_pipeline fixed ps s = Ok s' ->
  In (idx s') [ [None]; [Some "frame"]; [Some "frame"; Some "particle"];
                [Some "frame_index"]; [Some "frame_index"; Some "particle"] ]%string
  /\ cols s' = cols s.
Proof. exact reachable_from_default. Qed.
Print Assumptions C20_reachable_layouts.

(* The code before the `fix:` commits: among the 60 producer->consumer pairs on a
   default-indexed table, exactly the eight of DESIGN F9 raise the ambiguity error. *)
Theorem C20_compose_refuted :
  filter (fun pc => is_ambiguous (pair_outcome pinned pc)) all_pairs =
  [ (PFilterStubs, CCluster); (PFilterClusters, CCluster);
    (PSubtractDrift, CProd PLink); (PSubtractDrift, CProd PLinkPartial);
    (PSubtractDrift, CProd PSubtractDrift); (PSubtractDrift, CComputeDrift);
    (PSubtractDrift, CImsd); (PSubtractDrift, CCluster) ].
Proof. exact pinned_refuted. Qed.
Print Assumptions C20_compose_refuted.

(* Same numbers: for every pipeline of producers of any length and every numeric kernel
   (linker labels, filter decisions, drift curve, drift subtraction -- arbitrary functions of
   the rows in the order the stage presents them), the rows a pipeline produces from a table
   equal the rows it produces from the same data default-indexed, and so does compute_drift
   of the result. *)
Theorem C20_same_numbers :
  forall (R : Type) (fr part : R -> Z) (k_link k_link_partial : list R -> list R)
         (k_keep_stubs k_keep_clusters : list R -> R -> bool)
         (drift_t : Type) (k_drift : list R -> drift_t) (k_sub : drift_t -> Z -> R -> R)
         (ps : list dstage) (b : body R),
  let run := d_run R fr part k_link k_link_partial k_keep_stubs k_keep_clusters drift_t k_drift k_sub ps in
  map snd (run b) = map snd (run (default_indexed R b)) /\
  d_compute_drift R fr part drift_t k_drift (run b) =
  d_compute_drift R fr part drift_t k_drift (run (default_indexed R b)).
Proof. exact same_numbers. Qed.
Print Assumptions C20_same_numbers.

(* subtract_drift is the one stage that READS an index (Series.sub(level='frame')): the value
   it reads is the row's own frame number -- each row gets the drift at its own frame
   subtracted, rows come out ordered by (frame, particle) and indexed by (frame, particle). *)
Theorem C20_subtract_drift_alignment :
  forall (R : Type) (fr part : R -> Z) (drift_t : Type) (k_drift : list R -> drift_t)
         (k_sub : drift_t -> Z -> R -> R) (b : body R),
  d_subtract_drift R fr part drift_t k_drift k_sub b =
  let d := k_drift (isort (by_particle_frame R fr part) (map snd b)) in
  map (fun r => ([fr r; part r], k_sub d (fr r) r)) (isort (by_frame_particle R fr part) (map snd b)).
Proof. exact subtract_drift_rows. Qed.
Print Assumptions C20_subtract_drift_alignment.

(* ---------- non-vacuity ------------------------------------------------------------------- *)
Definition ex_rows : list row :=
  [ {| rid := 0; pid := Some 7%Z; frame := Some 0%Z; size := Some (3#1) |};
    {| rid := 1; pid := Some 2%Z; frame := Some 0%Z; size := Some (1#1) |};
    {| rid := 2; pid := Some 7%Z; frame := Some 1%Z; size := Some (4#1) |};
    {| rid := 3; pid := None;     frame := Some 1%Z; size := Some (1#1) |};
    {| rid := 4; pid := Some 7%Z; frame := None;     size := None |};
    {| rid := 5; pid := Some 2%Z; frame := Some 2%Z; size := Some (2#1) |} ].
(* trajectory 7 has three rows but two observations; trajectory 2 has two *)
Example ex_stubs_2 : map rid (filter_stubs ex_rows 2) = [0; 1; 2; 4; 5]%nat.
Proof. reflexivity. Qed.
Example ex_stubs_3 : map rid (filter_stubs ex_rows 3) = [].
Proof. reflexivity. Qed.
(* mean sizes: 7 -> 7/2, 2 -> 3/2 *)
Example ex_clusters : map rid (filter_clusters ex_rows (7#2)) = [1; 5]%nat.
Proof. reflexivity. Qed.
Example ex_clusters_quantile : map rid (filter_clusters_q ex_rows (1#2)) = [1; 5]%nat.
Proof. reflexivity. Qed.
(* the hypothesis of C20_compose / C20_reachable_layouts is met by the ordinary table, and
   by the oddly indexed one that subtract_drift returns *)
Example ex_traj_cols : traj_cols default_table /\
  traj_cols {| idx := [Some "frame"; Some "particle"]%string; cols := cols default_table |}.
Proof. split; repeat split. Qed.
Example ex_pipeline :
  run_pipeline fixed [PSubtractDrift; PLink; PFilterStubs; PSubtractDrift; PLinkPartial] default_table
  = Ok {| idx := [Some "frame_index"; Some "particle"]%string; cols := cols default_table |}.
Proof. reflexivity. Qed.
(* a table that lacks a column is rejected by the model, so acceptance is not built in *)
Example ex_missing :
  run_producer fixed PFilterStubs {| idx := [None]; cols := ["x"; "y"; "frame"]%string |} = Missing.
Proof. reflexivity. Qed.

(* =========================================================================================
   ROUTE T -- the same statements about the functions GENERATED from the current source.
   Gen/filtering.v is rewritten by tools/py2coq_filtering.py from trackpy/filtering.py
   (filter_stubs, filter_clusters, filter, bust_ghosts, bust_clusters) and trackpy/utils.py
   (pandas_sort, guess_pos_columns) on every run of the check, before this file is built.
   The generated functions take the pandas interface [P : pandas] (Model/PyFiltering.v: every
   pandas operation is a named field); SchemaI / RowsI / BodyI give the fields the meaning of
   Model/TrajLayout.v / TrajFilter.v / TrajData.v.  [res]: ROk v | RRaise exception.
   ========================================================================================= *)
From TP Require Import Model.PyFiltering Gen.filtering Proofs.TrajGen.
Local Open Scope string_scope.

(* ---------- (a) the generated filters ------------------------------------------------------ *)

(* On row tables the generated filter_stubs, filter_clusters (threshold given; threshold=None:
   the quantile of all sizes; NaN threshold: nothing kept), filter (any condition function) never
   raise and return what the hand-written model of pandas' groupby-filter returns; the two
   aliases are the functions they name. *)
Theorem C20_gen_filters_equal_model :
  (forall rows thr, py_filter_stubs RowsI rows thr = ROk (TrajFilter.filter_stubs rows thr)) /\
  (forall rows q cut, py_filter_clusters RowsI rows q (Some (Some cut)) = ROk (TrajFilter.filter_clusters rows cut)) /\
  (forall rows q, py_filter_clusters RowsI rows q None = ROk (filter_clusters_q rows q)) /\
  (forall rows q, py_filter_clusters RowsI rows q (Some None) = ROk []) /\
  (forall rows f, py_filter RowsI rows (fun g => ROk (f g)) = ROk (gb_filter f rows)) /\
  py_bust_ghosts = py_filter_stubs /\ py_bust_clusters = py_filter_clusters.
Proof. exact gen_filters_equal_model. Qed.
Print Assumptions C20_gen_filters_equal_model.

(* C20_stubs_exact for the generated filter_stubs *)
Theorem C20_gen_stubs_exact : forall (rows : list row) (threshold : Z),
  py_filter_stubs RowsI rows threshold =
  ROk (filter (fun r => match pid r with
                        | Some p => (threshold <=? observations p rows)%Z
                        | None => false
                        end) rows).
Proof. exact gen_stubs_exact. Qed.
Print Assumptions C20_gen_stubs_exact.

(* C20_clusters_exact for the generated filter_clusters (threshold = cut; the quantile argument
   is not looked at) *)
Theorem C20_gen_clusters_exact : forall (rows : list row) (quant cut : Q),
  py_filter_clusters RowsI rows quant (Some (Some cut)) =
  ROk (filter (fun r => match pid r with
                        | Some p => match qmean (traj_sizes p rows) with
                                    | Some m => Qltb m cut
                                    | None => false
                                    end
                        | None => false
                        end) rows).
Proof. exact gen_clusters_exact. Qed.
Print Assumptions C20_gen_clusters_exact.

(* ---------- (b) the generated layout plumbing ----------------------------------------------- *)

(* On schemas (index-level names + column labels) the generated filters raise / accept / leave
   the layout exactly as the model's stages do -- for EVERY schema, also column-deficient or
   oddly indexed ones ([to_outcome]: trackpy's ValueError for an absent column counts as
   Missing); the generated pandas_sort is the model's pandas_sort of the fixed code, for a
   str or list `by`, single or multi-level index, and for both values of inplace (result:
   the caller's object afterwards -- its index renamed either way --, the returned value:
   None when inplace); guess_pos_columns is ['y','x'] unless there is a column 'z'. *)
Theorem C20_gen_layout_equal_model :
  (forall s thr, to_outcome (py_filter_stubs SchemaI s thr) = Some (st_filter_stubs fixed s)) /\
  (forall s q thr, to_outcome (py_filter_clusters SchemaI s q thr) = Some (st_filter_clusters fixed s)) /\
  (forall s b inplace,
     py_pandas_sort SchemaI s b inplace =
     rbind (of_outcome (pandas_sort fixed b s)) (fun s' => ROk (s', if inplace then None else Some s'))) /\
  (forall s, py_guess_pos_columns SchemaI s = if has_col "z" s then "z"%string :: pos_columns else pos_columns).
Proof. exact gen_layout_equal_model. Qed.
Print Assumptions C20_gen_layout_equal_model.

(* The stages of Model/TrajLayout.v rebuilt on the generated functions (Proofs/TrajGen.v:
   g_link / g_compute_drift / g_subtract_drift / g_cluster call py_pandas_sort -- link keeps
   the object it passed with inplace=True, compute_drift keeps the returned table -- and
   py_guess_pos_columns; the two filters ARE py_filter_stubs / py_filter_clusters with any
   arguments [a]) give the model's outcome on every 2-D table. *)
Theorem C20_gen_stages_equal_model : forall (a : filter_args) (s : schema),
  has_col "z" s = false ->
  (forall p, to_outcome (g_run_producer a p s) = Some (run_producer fixed p s)) /\
  (forall c, to_outcome (g_run_consumer a c s) = Some (run_consumer fixed c s)).
Proof. exact gen_stages_equal_model. Qed.
Print Assumptions C20_gen_stages_equal_model.

(* C20_compose for pipelines of the generated stages *)
Theorem C20_gen_compose : forall (a : filter_args) (ps : list producer) (s : schema),
  traj_cols s -> has_col "z" s = false ->
  exists s', g_run_pipeline a ps s = ROk s' /\ traj_cols s' /\ cols s' = cols s /\
             forall c : consumer, exists r, g_run_consumer a c s' = ROk r.
Proof. exact g_compose. Qed.
Print Assumptions C20_gen_compose.

(* C20_reachable_layouts for pipelines of the generated stages *)
Theorem C20_gen_reachable_layouts : forall (a : filter_args) ps s s',
  traj_cols s -> has_col "z" s = false -> idx s = [None] -> g_run_pipeline a ps s = ROk s' ->
  In (idx s') [ [None]; [Some "frame"]; [Some "frame"; Some "particle"];
                [Some "frame_index"]; [Some "frame_index"; Some "particle"] ]%string
  /\ cols s' = cols s.
Proof. exact g_reachable_from_default. Qed.
Print Assumptions C20_gen_reachable_layouts.

(* ---------- (c) the generated functions in the data-flow model -------------------------------- *)

(* On bodies (index values + rows) the generated filters are d_filter (reset the index, keep
   the rows the kernel keeps, index by the row's own frame); the generated pandas_sort with
   inplace=True sorts the caller's table (stable) and returns nothing, without inplace it
   leaves the table and returns the sorted one. *)
Theorem C20_gen_data_equal_model :
  forall (R : Type) (fr part : R -> Z) (keep : list R -> R -> bool) (b : body R),
  (forall thr, py_filter_stubs (BodyI R fr part keep) b thr = ROk (d_filter R fr keep b)) /\
  (forall q thr, py_filter_clusters (BodyI R fr part keep) b q thr = ROk (d_filter R fr keep b)) /\
  py_pandas_sort (BodyI R fr part keep) b (ByStr "frame") true = ROk (sort_values R (by_frame R fr) b, None) /\
  py_pandas_sort (BodyI R fr part keep) b (ByList ["particle"; "frame"]%string) false
    = ROk (b, Some (sort_values R (by_particle_frame R fr part) b)).
Proof. exact gen_data_equal_model. Qed.
Print Assumptions C20_gen_data_equal_model.

(* C20_same_numbers for pipelines whose filter stages and sorts are the generated functions *)
Theorem C20_gen_same_numbers :
  forall (R : Type) (fr part : R -> Z) (k_link k_link_partial : list R -> list R)
         (k_keep_stubs k_keep_clusters : list R -> R -> bool)
         (drift_t : Type) (k_drift : list R -> drift_t) (k_sub : drift_t -> Z -> R -> R)
         (a : filter_args) (ps : list dstage) (b : body R),
  let run := g_d_run R fr part k_link k_link_partial k_keep_stubs k_keep_clusters drift_t k_drift k_sub a ps in
  map snd (run b) = map snd (run (default_indexed R b)) /\
  g_d_compute_drift R fr part k_keep_stubs drift_t k_drift (run b) =
  g_d_compute_drift R fr part k_keep_stubs drift_t k_drift (run (default_indexed R b)).
Proof. exact g_same_numbers. Qed.
Print Assumptions C20_gen_same_numbers.

(* ---------- non-vacuity: the generated functions run ---------------------------------------- *)
Example ex_gen_stubs :
  match py_filter_stubs RowsI ex_rows 2 with ROk o => Some (map rid o) | RRaise _ => None end
  = Some [0; 1; 2; 4; 5]%nat.
Proof. reflexivity. Qed.
Example ex_gen_clusters_quantile :
  match py_filter_clusters RowsI ex_rows (1#2) None with ROk o => Some (map rid o) | RRaise _ => None end
  = Some [1; 5]%nat.
Proof. reflexivity. Qed.
Definition ex_args := {| a_stub_threshold := 3; a_quantile := 8#10; a_cluster_threshold := Some (Some (4#1)) |}.
Example ex_gen_pipeline :
  has_col "z" default_table = false /\
  g_run_pipeline ex_args [PSubtractDrift; PLink; PFilterStubs; PSubtractDrift; PLinkPartial] default_table
  = ROk {| idx := [Some "frame_index"; Some "particle"]%string; cols := cols default_table |}.
Proof. split; reflexivity. Qed.
(* rejection is not built in: trackpy's own ValueError for a table without 'particle' *)
Example ex_gen_missing :
  py_filter_stubs SchemaI {| idx := [None]; cols := ["x"; "y"; "frame"]%string |} 5
  = RRaise (EValueError "Tracks must contain columns 'frame' and 'particle'.").
Proof. reflexivity. Qed.
(* pandas_sort on a table indexed by 'frame': the caller's index is renamed, also without inplace *)
Example ex_gen_sort :
  py_pandas_sort SchemaI {| idx := [Some "frame"]%string; cols := cols default_table |} (ByStr "frame") false
  = let t := {| idx := [Some "frame_index"]%string; cols := cols default_table |} in ROk (t, Some t).
Proof. reflexivity. Qed.
