(* C20 -- trajectory filters are exact; every stage accepts the previous stage's
   table and its numbers do not depend on the index the table arrives with.
   Only statements closed by [exact]; proofs live in Proofs/. *)
From Coq Require Import ZArith QArith String List Bool.
From TP Require Import Model.TrajFilter Model.TrajLayout Model.TrajData
                       Proofs.TrajFilter Proofs.TrajLayout Proofs.TrajData.
Import ListNotations.

(* ---------- (a) the filters ------------------------------------------------------------ *)

(* filter_stubs (pandas groupby('particle').filter: sorted group keys, positions of each
   passing group, np.sort of the concatenation, take) returns exactly the rows -- same
   values, same order -- whose trajectory has at least [threshold] observations, an
   observation of trajectory p being a row labelled p that has a frame number. *)
Theorem C20_stubs_exact : forall (rows : list row) (threshold : Z),
  filter_stubs rows threshold =
  filter (fun r => match pid r with
                   | Some p => (threshold <=? observations p rows)%Z
                   | None => false                  (* NaN label: belongs to no trajectory *)
                   end) rows.
Proof. exact filter_stubs_exact. Qed.
Print Assumptions C20_stubs_exact.

(* filter_clusters returns exactly the rows of the trajectories whose mean size (arithmetic
   mean of the sizes recorded for the trajectory) is strictly below the cut. *)
Theorem C20_clusters_exact : forall (rows : list row) (cut : Q),
  filter_clusters rows cut =
  filter (fun r => match pid r with
                   | Some p => match qmean (traj_sizes p rows) with
                               | Some m => Qltb m cut
                               | None => false      (* no size recorded: mean is NaN *)
                               end
                   | None => false
                   end) rows.
Proof. exact filter_clusters_exact. Qed.
Print Assumptions C20_clusters_exact.

(* the executable tests above mean what they say *)
Theorem C20_mean_and_cut_meaning :
  (forall a b : Q, Qltb a b = true <-> (a < b)%Q) /\
  (forall l m, qmean l = Some m -> l <> [] /\ (m * inject_Z (Z.of_nat (length l)) == qsum l)%Q).
Proof. exact (conj Qltb_lt qmean_spec). Qed.
Print Assumptions C20_mean_and_cut_meaning.

(* trajectories are kept or dropped whole *)
Theorem C20_whole_trajectories : forall rows r r',
  (forall t, In r (filter_stubs rows t) -> In r' rows -> pid r' = pid r -> In r' (filter_stubs rows t)) /\
  (forall c, In r (filter_clusters rows c) -> In r' rows -> pid r' = pid r -> In r' (filter_clusters rows c)).
Proof.
  exact (fun rows r r' => conj (fun t => filter_stubs_whole_trajectories rows t r r')
                               (fun c => filter_clusters_whole_trajectories rows c r r')).
Qed.
Print Assumptions C20_whole_trajectories.

(* ---------- (b) composition -------------------------------------------------------------- *)

(* For the code as it is now: starting from ANY table that has the trajectory columns
   (frame, particle, x, y, size) -- whatever its index levels are called -- every pipeline of
   producer stages (link, link_partial, filter_stubs, filter_clusters, subtract_drift), of any
   length, runs without pandas' "both an index level and a column label" error or a KeyError,
   keeps the columns, and every consumer (the five producers, compute_drift, msd, imsd, emsd,
   cluster, proximity, relate_frames) accepts the result. *)
Theorem C20_compose : forall (ps : list producer) (s : schema),
  traj_cols s ->
  exists s', run_pipeline fixed ps s = Ok s' /\ traj_cols s' /\ cols s' = cols s /\
             forall c : consumer, exists r, run_consumer fixed c s' = Ok r.
Proof. exact compose. Qed.
Print Assumptions C20_compose.

(* Starting from a default-indexed table the index layout after any pipeline is one of five:
   unnamed; 'frame'; ('frame','particle'); 'frame_index'; ('frame_index','particle'). *)
Theorem C20_reachable_layouts : forall ps s s',
  traj_cols s -> idx s = [None] -> run_pipeline fixed ps s = Ok s' ->
  In (idx s') [ [None]; [Some "frame"]; [Some "frame"; Some "particle"];
                [Some "frame_index"]; [Some "frame_index"; Some "particle"] ]%string
  /\ cols s' = cols s.
Proof. exact reachable_from_default. Qed.
Print Assumptions C20_reachable_layouts.

(* The code before the `fix:` commits: among the 60 producer->consumer pairs on a
   default-indexed table, exactly the eight of DESIGN F9 raise the ambiguity error. *)
Theorem C20_compose_refuted :
  filter (fun pc => is_ambiguous (pair_outcome pinned pc)) all_pairs =
  [ (PFilterStubs, CCluster); (PFilterClusters, CCluster);
    (PSubtractDrift, CProd PLink); (PSubtractDrift, CProd PLinkPartial);
    (PSubtractDrift, CProd PSubtractDrift); (PSubtractDrift, CComputeDrift);
    (PSubtractDrift, CImsd); (PSubtractDrift, CCluster) ].
Proof. exact pinned_refuted. Qed.
Print Assumptions C20_compose_refuted.

(* Same numbers: for every pipeline of producers of any length and every numeric kernel
   (linker labels, filter decisions, drift curve, drift subtraction -- arbitrary functions of
   the rows in the order the stage presents them), the rows a pipeline produces from a table
   equal the rows it produces from the same data default-indexed, and so does compute_drift
   of the result. *)
Theorem C20_same_numbers :
  forall (R : Type) (fr part : R -> Z) (k_link k_link_partial : list R -> list R)
         (k_keep_stubs k_keep_clusters : list R -> R -> bool)
         (drift_t : Type) (k_drift : list R -> drift_t) (k_sub : drift_t -> Z -> R -> R)
         (ps : list dstage) (b : body R),
  let run := d_run R fr part k_link k_link_partial k_keep_stubs k_keep_clusters drift_t k_drift k_sub ps in
  map snd (run b) = map snd (run (default_indexed R b)) /\
  d_compute_drift R fr part drift_t k_drift (run b) =
  d_compute_drift R fr part drift_t k_drift (run (default_indexed R b)).
Proof. exact same_numbers. Qed.
Print Assumptions C20_same_numbers.

(* subtract_drift is the one stage that READS an index (Series.sub(level='frame')): the value
   it reads is the row's own frame number -- each row gets the drift at its own frame
   subtracted, rows come out ordered by (frame, particle) and indexed by (frame, particle). *)
Theorem C20_subtract_drift_alignment :
  forall (R : Type) (fr part : R -> Z) (drift_t : Type) (k_drift : list R -> drift_t)
         (k_sub : drift_t -> Z -> R -> R) (b : body R),
  d_subtract_drift R fr part drift_t k_drift k_sub b =
  let d := k_drift (isort (by_particle_frame R fr part) (map snd b)) in
  map (fun r => ([fr r; part r], k_sub d (fr r) r)) (isort (by_frame_particle R fr part) (map snd b)).
Proof. exact subtract_drift_rows. Qed.
Print Assumptions C20_subtract_drift_alignment.

(* ---------- non-vacuity ------------------------------------------------------------------- *)
Definition ex_rows : list row :=
  [ {| rid := 0; pid := Some 7%Z; frame := Some 0%Z; size := Some (3#1) |};
    {| rid := 1; pid := Some 2%Z; frame := Some 0%Z; size := Some (1#1) |};
    {| rid := 2; pid := Some 7%Z; frame := Some 1%Z; size := Some (4#1) |};
    {| rid := 3; pid := None;     frame := Some 1%Z; size := Some (1#1) |};
    {| rid := 4; pid := Some 7%Z; frame := None;     size := None |};
    {| rid := 5; pid := Some 2%Z; frame := Some 2%Z; size := Some (2#1) |} ].
(* trajectory 7 has three rows but two observations; trajectory 2 has two *)
Example ex_stubs_2 : map rid (filter_stubs ex_rows 2) = [0; 1; 2; 4; 5]%nat.
Proof. reflexivity. Qed.
Example ex_stubs_3 : map rid (filter_stubs ex_rows 3) = [].
Proof. reflexivity. Qed.
(* mean sizes: 7 -> 7/2, 2 -> 3/2 *)
Example ex_clusters : map rid (filter_clusters ex_rows (7#2)) = [1; 5]%nat.
Proof. reflexivity. Qed.
Example ex_clusters_quantile : map rid (filter_clusters_q ex_rows (1#2)) = [1; 5]%nat.
Proof. reflexivity. Qed.
(* the hypothesis of C20_compose / C20_reachable_layouts is met by the ordinary table, and
   by the oddly indexed one that subtract_drift returns *)
Example ex_traj_cols : traj_cols default_table /\
  traj_cols {| idx := [Some "frame"; Some "particle"]%string; cols := cols default_table |}.
Proof. split; repeat split. Qed.
Example ex_pipeline :
  run_pipeline fixed [PSubtractDrift; PLink; PFilterStubs; PSubtractDrift; PLinkPartial] default_table
  = Ok {| idx := [Some "frame_index"; Some "particle"]%string; cols := cols default_table |}.
Proof. reflexivity. Qed.
(* a table that lacks a column is rejected by the model, so acceptance is not built in *)
Example ex_missing :
  run_producer fixed PFilterStubs {| idx := [None]; cols := ["x"; "y"; "frame"]%string |} = Missing.
Proof. reflexivity. Qed.

(* =========================================================================================
   ROUTE T -- the same statements about the functions GENERATED from the current source.
   Gen/filtering.v is rewritten by tools/py2coq_filtering.py from trackpy/filtering.py
   (filter_stubs, filter_clusters, filter, bust_ghosts, bust_clusters) and trackpy/utils.py
   (pandas_sort, guess_pos_columns) on every run of the check, before this file is built.
   The generated functions take the pandas interface [P : pandas] (Model/PyFiltering.v: every
   pandas operation is a named field); SchemaI / RowsI / BodyI give the fields the meaning of
   Model/TrajLayout.v / TrajFilter.v / TrajData.v.  [res]: ROk v | RRaise exception.
   ========================================================================================= *)
From TP Require Import Model.PyFiltering Gen.filtering Proofs.TrajGen.
Local Open Scope string_scope.

(* ---------- (a) the generated filters ------------------------------------------------------ *)

(* On row tables the generated filter_stubs, filter_clusters (threshold given; threshold=None:
   the quantile of all sizes; NaN threshold: nothing kept), filter (any condition function) never
   raise and return what the hand-written model of pandas' groupby-filter returns; the two
   aliases are the functions they name. *)
Theorem C20_gen_filters_equal_model :
  (forall rows thr, py_filter_stubs RowsI rows thr = ROk (TrajFilter.filter_stubs rows thr)) /\
  (forall rows q cut, py_filter_clusters RowsI rows q (Some (Some cut)) = ROk (TrajFilter.filter_clusters rows cut)) /\
  (forall rows q, py_filter_clusters RowsI rows q None = ROk (filter_clusters_q rows q)) /\
  (forall rows q, py_filter_clusters RowsI rows q (Some None) = ROk []) /\
  (forall rows f, py_filter RowsI rows (fun g => ROk (f g)) = ROk (gb_filter f rows)) /\
  py_bust_ghosts = py_filter_stubs /\ py_bust_clusters = py_filter_clusters.
Proof. exact gen_filters_equal_model. Qed.
Print Assumptions C20_gen_filters_equal_model.

(* C20_stubs_exact for the generated filter_stubs *)
Theorem C20_gen_stubs_exact : forall (rows : list row) (threshold : Z),
  py_filter_stubs RowsI rows threshold =
  ROk (filter (fun r => match pid r with
                        | Some p => (threshold <=? observations p rows)%Z
                        | None => false
                        end) rows).
Proof. exact gen_stubs_exact. Qed.
Print Assumptions C20_gen_stubs_exact.

(* C20_clusters_exact for the generated filter_clusters (threshold = cut; the quantile argument
   is not looked at) *)
Theorem C20_gen_clusters_exact : forall (rows : list row) (quant cut : Q),
  py_filter_clusters RowsI rows quant (Some (Some cut)) =
  ROk (filter (fun r => match pid r with
                        | Some p => match qmean (traj_sizes p rows) with
                                    | Some m => Qltb m cut
                                    | None => false
                                    end
                        | None => false
                        end) rows).
Proof. exact gen_clusters_exact. Qed.
Print Assumptions C20_gen_clusters_exact.

(* ---------- (b) the generated layout plumbing ----------------------------------------------- *)

(* On schemas (index-level names + column labels) the generated filters raise / accept / leave
   the layout exactly as the model's stages do -- for EVERY schema, also column-deficient or
   oddly indexed ones ([to_outcome]: trackpy's ValueError for an absent column counts as
   Missing); the generated pandas_sort is the model's pandas_sort of the fixed code, for a
   str or list `by`, single or multi-level index, and for both values of inplace (result:
   the caller's object afterwards -- its index renamed either way --, the returned value:
   None when inplace); guess_pos_columns is ['y','x'] unless there is a column 'z'. *)
Theorem C20_gen_layout_equal_model :
  (forall s thr, to_outcome (py_filter_stubs SchemaI s thr) = Some (st_filter_stubs fixed s)) /\
  (forall s q thr, to_outcome (py_filter_clusters SchemaI s q thr) = Some (st_filter_clusters fixed s)) /\
  (forall s b inplace,
     py_pandas_sort SchemaI s b inplace =
     rbind (of_outcome (pandas_sort fixed b s)) (fun s' => ROk (s', if inplace then None else Some s'))) /\
  (forall s, py_guess_pos_columns SchemaI s = if has_col "z" s then "z"%string :: pos_columns else pos_columns).
Proof. exact gen_layout_equal_model. Qed.
Print Assumptions C20_gen_layout_equal_model.

(* The stages of Model/TrajLayout.v rebuilt on the generated functions (Proofs/TrajGen.v:
   g_link / g_compute_drift / g_subtract_drift / g_cluster call py_pandas_sort -- link keeps
   the object it passed with inplace=True, compute_drift keeps the returned table -- and
   py_guess_pos_columns; the two filters ARE py_filter_stubs / py_filter_clusters with any
   arguments [a]) give the model's outcome on every 2-D table. *)
Theorem C20_gen_stages_equal_model : forall (a : filter_args) (s : schema),
  has_col "z" s = false ->
  (forall p, to_outcome (g_run_producer a p s) = Some (run_producer fixed p s)) /\
  (forall c, to_outcome (g_run_consumer a c s) = Some (run_consumer fixed c s)).
Proof. exact gen_stages_equal_model. Qed.
Print Assumptions C20_gen_stages_equal_model.

(* C20_compose for pipelines of the generated stages *)
Theorem C20_gen_compose : forall (a : filter_args) (ps : list producer) (s : schema),
  traj_cols s -> has_col "z" s = false ->
  exists s', g_run_pipeline a ps s = ROk s' /\ traj_cols s' /\ cols s' = cols s /\
             forall c : consumer, exists r, g_run_consumer a c s' = ROk r.
Proof. exact g_compose. Qed.
Print Assumptions C20_gen_compose.

(* C20_reachable_layouts for pipelines of the generated stages *)
Theorem C20_gen_reachable_layouts : forall (a : filter_args) ps s s',
  traj_cols s -> has_col "z" s = false -> idx s = [None] -> g_run_pipeline a ps s = ROk s' ->
  In (idx s') [ [None]; [Some "frame"]; [Some "frame"; Some "particle"];
                [Some "frame_index"]; [Some "frame_index"; Some "particle"] ]%string
  /\ cols s' = cols s.
Proof. exact g_reachable_from_default. Qed.
Print Assumptions C20_gen_reachable_layouts.

(* ---------- (c) the generated functions in the data-flow model -------------------------------- *)

(* On bodies (index values + rows) the generated filters are d_filter (reset the index, keep
   the rows the kernel keeps, index by the row's own frame); the generated pandas_sort with
   inplace=True sorts the caller's table (stable) and returns nothing, without inplace it
   leaves the table and returns the sorted one. *)
Theorem C20_gen_data_equal_model :
  forall (R : Type) (fr part : R -> Z) (keep : list R -> R -> bool) (b : body R),
  (forall thr, py_filter_stubs (BodyI R fr part keep) b thr = ROk (d_filter R fr keep b)) /\
  (forall q thr, py_filter_clusters (BodyI R fr part keep) b q thr = ROk (d_filter R fr keep b)) /\
  py_pandas_sort (BodyI R fr part keep) b (ByStr "frame") true = ROk (sort_values R (by_frame R fr) b, None) /\
  py_pandas_sort (BodyI R fr part keep) b (ByList ["particle"; "frame"]%string) false
    = ROk (b, Some (sort_values R (by_particle_frame R fr part) b)).
Proof. exact gen_data_equal_model. Qed.
Print Assumptions C20_gen_data_equal_model.

(* C20_same_numbers for pipelines whose filter stages and sorts are the generated functions *)
Theorem C20_gen_same_numbers :
  forall (R : Type) (fr part : R -> Z) (k_link k_link_partial : list R -> list R)
         (k_keep_stubs k_keep_clusters : list R -> R -> bool)
         (drift_t : Type) (k_drift : list R -> drift_t) (k_sub : drift_t -> Z -> R -> R)
         (a : filter_args) (ps : list dstage) (b : body R),
  let run := g_d_run R fr part k_link k_link_partial k_keep_stubs k_keep_clusters drift_t k_drift k_sub a ps in
  map snd (run b) = map snd (run (default_indexed R b)) /\
  g_d_compute_drift R fr part k_keep_stubs drift_t k_drift (run b) =
  g_d_compute_drift R fr part k_keep_stubs drift_t k_drift (run (default_indexed R b)).
Proof. exact g_same_numbers. Qed.
Print Assumptions C20_gen_same_numbers.

(* ---------- non-vacuity: the generated functions run ---------------------------------------- *)
Example ex_gen_stubs :
  match py_filter_stubs RowsI ex_rows 2 with ROk o => Some (map rid o) | RRaise _ => None end
  = Some [0; 1; 2; 4; 5]%nat.
Proof. reflexivity. Qed.
Example ex_gen_clusters_quantile :
  match py_filter_clusters RowsI ex_rows (1#2) None with ROk o => Some (map rid o) | RRaise _ => None end
  = Some [1; 5]%nat.
Proof. reflexivity. Qed.
Definition ex_args := {| a_stub_threshold := 3; a_quantile := 8#10; a_cluster_threshold := Some (Some (4#1)) |}.
Example ex_gen_pipeline :
  has_col "z" default_table = false /\
  g_run_pipeline ex_args [PSubtractDrift; PLink; PFilterStubs; PSubtractDrift; PLinkPartial] default_table
  = ROk {| idx := [Some "frame_index"; Some "particle"]%string; cols := cols default_table |}.
Proof. split; reflexivity. Qed.
(* rejection is not built in: trackpy's own ValueError for a table without 'particle' *)
Example ex_gen_missing :
  py_filter_stubs SchemaI {| idx := [None]; cols := ["x"; "y"; "frame"]%string |} 5
  = RRaise (EValueError "Tracks must contain columns 'frame' and 'particle'.").
Proof. reflexivity. Qed.
(* pandas_sort on a table indexed by 'frame': the caller's index is renamed, also without inplace *)
Example ex_gen_sort :
  py_pandas_sort SchemaI {| idx := [Some "frame"]%string; cols := cols default_table |} (ByStr "frame") false
  = let t := {| idx := [Some "frame_index"]%string; cols := cols default_table |} in ROk (t, Some t).
Proof. reflexivity. Qed.

(* =========================================================================================
   ROUTE T, tables WITH a column 'z' (3-D features) and the remaining layout gaps.
   The theorems C20_gen_stages_equal_model / C20_gen_compose / C20_gen_reachable_layouts above
   carry the hypothesis `has_col "z" s = false`, and C20_gen_same_numbers is about an
   interpretation (BodyI) in which `'z' in f` is always False.  Below: the same statements
   without that restriction, the drift stages taken from Gen/drift.v (C18's translation of
   trackpy/motion.py) and the link stage from Gen/coords.v (C01's translation of
   trackpy/linking/linking.py), and one concrete 3-D table through all four generated files.

   Model/TrajLayout3.v is the layout model with pos_columns = guess_pos_columns(f) for the stages
   that guess (link, link_partial, compute_drift / subtract_drift, cluster: z, y, x when the table
   has 'z') and the literal ['x', 'y'] for those that do not (msd, imsd, emsd, proximity,
   relate_frames); run_producer3 / run_consumer3 / run_pipeline3 are its stages.
   ========================================================================================= *)
From TP Require Import Model.TrajLayout3 Model.PyFiltering3 Model.PyDriftSchema
                       Proofs.TrajGen3 Proofs.TrajGen3Data Proofs.TrajGenDrift.
From TP Require Model.PyDrift Gen.drift Model.PyCoords Gen.coords Proofs.Cands Proofs.TrajGenLink
                Model.TrajPipeline3 Proofs.TrajPipeline3.

(* ---- (b') layout, any table ----------------------------------------------------------------- *)

(* the z-aware layout model IS Model/TrajLayout.v's on every table without a column 'z' *)
Theorem C20_layout_model_3d_extends_2d : forall (s : schema),
  has_col "z" s = false ->
  (forall v p, run_producer3 v p s = run_producer v p s) /\
  (forall c, run_consumer3 fixed c s = run_consumer fixed c s).
Proof. exact (fun s Hz => conj (fun v p => run_producer3_2d v p s Hz) (fun c => run_consumer3_2d c s Hz)). Qed.
Print Assumptions C20_layout_model_3d_extends_2d.

(* C20_gen_stages_equal_model without the restriction: on EVERY schema -- with or without 'z',
   column-deficient or oddly indexed -- each stage built on the generated functions gives the
   z-aware model's outcome *)
Theorem C20_gen_stages_equal_model_3d : forall (a : filter_args) (s : schema),
  (forall p, to_outcome (g_run_producer a p s) = Some (run_producer3 fixed p s)) /\
  (forall c, to_outcome (g_run_consumer a c s) = Some (run_consumer3 fixed c s)).
Proof. exact gen_stages_equal_model3. Qed.
Print Assumptions C20_gen_stages_equal_model_3d.

(* C20_gen_compose without the restriction.  traj_cols alone suffices: a table that has 'z' also
   has y and x, which is all guess_pos_columns can ask for *)
Theorem C20_gen_compose_3d : forall (a : filter_args) (ps : list producer) (s : schema),
  traj_cols s ->
  exists s', g_run_pipeline a ps s = ROk s' /\ traj_cols s' /\ cols s' = cols s /\
             forall c : consumer, exists r, g_run_consumer a c s' = ROk r.
Proof. exact g_compose3. Qed.
Print Assumptions C20_gen_compose_3d.

Theorem C20_gen_reachable_layouts_3d : forall (a : filter_args) ps s s',
  traj_cols s -> idx s = [None] -> g_run_pipeline a ps s = ROk s' ->
  In (idx s') [ [None]; [Some "frame"]; [Some "frame"; Some "particle"];
                [Some "frame_index"]; [Some "frame_index"; Some "particle"] ]%string
  /\ cols s' = cols s.
Proof. exact g_reachable_from_default3. Qed.
Print Assumptions C20_gen_reachable_layouts_3d.

(* what the generated guess_pos_columns / compute_drift answer for a trajectory table with 'z' *)
Theorem C20_gen_3d_answers : forall (a : filter_args) (s : schema),
  traj_cols s -> has_col "z" s = true ->
  py_guess_pos_columns SchemaI s = ["z"; "y"; "x"] /\
  g_run_consumer a CComputeDrift s = ROk {| idx := [Some "frame"]; cols := ["z"; "y"; "x"] |}.
Proof. exact gen_3d_answers. Qed.
Print Assumptions C20_gen_3d_answers.

(* ---- (a') the generated filters on tables with further columns ------------------------------- *)

(* RowsI3 xcols (Model/PyFiltering3.v): RowsI for a table that also has the columns xcols -- e.g.
   ["z"; "y"; "x"; "mass"] -- whose values are not part of a [row] (reading one would be EUnmodelled).
   The generated filters select exactly the rows of C20_stubs_exact / C20_clusters_exact -- so they
   never read a further column --, and the generated guess_pos_columns answers z, y, x iff 'z' is there *)
Theorem C20_gen_filters_exact_any_columns : forall (xcols : list name),
  (forall rows threshold,
     py_filter_stubs (RowsI3 xcols) rows threshold =
     ROk (filter (fun r => match pid r with
                           | Some p => (threshold <=? observations p rows)%Z
                           | None => false
                           end) rows)) /\
  (forall rows quant cut,
     py_filter_clusters (RowsI3 xcols) rows quant (Some (Some cut)) =
     ROk (filter (fun r => match pid r with
                           | Some p => match qmean (traj_sizes p rows) with
                                       | Some m => Qltb m cut
                                       | None => false
                                       end
                           | None => false
                           end) rows)) /\
  (forall rows quant, py_filter_clusters (RowsI3 xcols) rows quant None = ROk (filter_clusters_q rows quant)) /\
  (forall rows, py_guess_pos_columns (RowsI3 xcols) rows
                = if mem_name "z" xcols then ["z"; "y"; "x"] else ["y"; "x"]).
Proof. exact gen_filters_exact3. Qed.
Print Assumptions C20_gen_filters_exact_any_columns.

(* ---- (c') data flow, any further columns ----------------------------------------------------- *)

(* C20_gen_same_numbers for tables with the further columns xcols (BodyI3).  The numeric kernels of
   link / link_partial / compute_drift now TAKE the position columns, and the stages hand them what the
   generated guess_pos_columns answers for the table at hand (g_d_link3 / g_d_compute_drift3) *)
Theorem C20_gen_same_numbers_3d :
  forall (R : Type) (fr part : R -> Z) (k_link k_link_partial : list name -> list R -> list R)
         (k_keep_stubs k_keep_clusters : list R -> R -> bool)
         (drift_t : Type) (k_drift : list name -> list R -> drift_t) (k_sub : drift_t -> Z -> R -> R)
         (xcols : list name) (a : filter_args) (ps : list dstage) (b : body R),
  let run := g_d_run3 R fr part k_link k_link_partial k_keep_stubs k_keep_clusters drift_t k_drift k_sub xcols a ps in
  map snd (run b) = map snd (run (default_indexed R b)) /\
  g_d_compute_drift3 R fr part k_keep_stubs drift_t k_drift xcols (run b) =
  g_d_compute_drift3 R fr part k_keep_stubs drift_t k_drift xcols (run (default_indexed R b)).
Proof. exact g_same_numbers3. Qed.
Print Assumptions C20_gen_same_numbers_3d.

(* ... and those position columns are z, y, x exactly when the table has a column 'z' *)
Theorem C20_gen_kernels_get_guessed_columns :
  forall (R : Type) (fr part : R -> Z) (k_keep_stubs : list R -> R -> bool)
         (drift_t : Type) (k_drift : list name -> list R -> drift_t) (xcols : list name)
         (k_link : list name -> list R -> list R) (b : body R),
  g_d_link3 R fr part k_keep_stubs xcols k_link b =
    (let b1 := sort_values R (by_frame R fr) b in
     combine (map fst b1) (k_link (if mem_name "z" xcols then ["z"; "y"; "x"] else ["y"; "x"]) (map snd b1))) /\
  g_d_compute_drift3 R fr part k_keep_stubs drift_t k_drift xcols b =
    k_drift (if mem_name "z" xcols then ["z"; "y"; "x"] else ["y"; "x"])
            (map snd (sort_values R (by_particle_frame R fr part) (TrajData.reset_index_drop R b))).
Proof. exact g_d_kernels_get_guess. Qed.
Print Assumptions C20_gen_kernels_get_guessed_columns.

(* ---- (d) composition across the generated files ------------------------------------------------ *)

(* Gen/drift.v (compute_drift, subtract_drift and its own guess_pos_columns, generated from
   trackpy/motion.py) read on layouts: SchemaDI (Model/PyDriftSchema.v) interprets its pandas interface
   on [res schema], with p_pandas_sort := the generated pandas_sort of Gen/filtering.v.
   For EVERY schema the generated compute_drift gives the z-aware model's outcome, whatever `smoothing`;
   whenever compute_drift accepts the table the generated subtract_drift returns the model's table and
   the caller's table is the argument itself unless inplace. *)
Theorem C20_gen_drift_layout_equal_model :
  (forall s smoothing,
     drift.py_compute_drift SchemaDI (ROk s) smoothing None = of_outcome (st_compute_drift3 fixed s)) /\
  (forall s inplace d,
     st_compute_drift3 fixed s = Ok d ->
     drift.py_subtract_drift SchemaDI (ROk s) None inplace =
     let r := of_outcome ((if has_col "particle" s then TrajLayout.set_index ["frame"; "particle"] s
                           else TrajLayout.set_index ["frame"] s)
                          >>= fun t => if has_level "frame" t then getitems (cols d) t else Missing) in
     (if inplace then r else ROk s, r)).
Proof. exact (conj gen_drift_compute_schema gen_drift_subtract_schema). Qed.
Print Assumptions C20_gen_drift_layout_equal_model.

(* on a trajectory table, 2-D or 3-D, spelled out *)
Theorem C20_gen_drift_on_trajectory_table : forall s, traj_cols s ->
  (forall smoothing,
     drift.py_compute_drift SchemaDI (ROk s) smoothing None
     = ROk {| idx := [Some "frame"]; cols := if has_col "z" s then ["z"; "y"; "x"] else ["y"; "x"] |}) /\
  (forall inplace,
     drift.py_subtract_drift SchemaDI (ROk s) None inplace =
     let r := ROk {| idx := [Some "frame"; Some "particle"]; cols := cols s |} in
     (if inplace then r else ROk s, r)).
Proof. exact gen_drift_on_traj_table. Qed.
Print Assumptions C20_gen_drift_on_trajectory_table.

(* The pipeline in which every stage that has a generated counterpart IS that counterpart
   (Proofs/TrajGenDrift.v x_run_producer / x_run_consumer / x_run_pipeline):
     link, link_partial      the generated guess_pos_columns + pandas_sort(inplace=True)   Gen/filtering.v
                             (its column / dtype effect: Gen/coords.v, C20_gen_link_layout below)
     filter_stubs/_clusters  py_filter_stubs / py_filter_clusters                          Gen/filtering.v
     subtract_drift          py_subtract_drift (after py_compute_drift accepted)           Gen/drift.v
     compute_drift           py_compute_drift                                              Gen/drift.v
     cluster                 the generated guess_pos_columns                               Gen/filtering.v
     msd, imsd, emsd, proximity, relate_frames   Model/TrajLayout.v (Gen/msd.v has no layout content:
                             its tables are (particle, frame, positions) lists, see ex3_pipeline)
   Each stage gives the z-aware model's outcome on EVERY schema; from any trajectory table every
   pipeline, in any order and of any length, runs, keeps the columns, and every consumer accepts. *)
Theorem C20_gen_compose_all_generated : forall (a : filter_args),
  (forall p s, to_outcome (x_run_producer a p s) = Some (run_producer3 fixed p s)) /\
  (forall c s, to_outcome (x_run_consumer a c s) = Some (run_consumer3 fixed c s)) /\
  (forall ps s, traj_cols s ->
     exists s', x_run_pipeline a ps s = ROk s' /\ traj_cols s' /\ cols s' = cols s /\
                forall c : consumer, exists r, x_run_consumer a c s' = ROk r).
Proof. exact (fun a => conj (x_run_producer_eq a) (conj (x_run_consumer_eq a) (x_compose a))). Qed.
Print Assumptions C20_gen_compose_all_generated.

(* Gen/coords.v's py_link (tables: column labels, the labels of the non-integer-typed columns, rows;
   no index), pos_columns=None, for EVERY Linker interface L: whenever it returns a table g,
   g has f's columns plus 'particle' (appended when new), 'frame' and 'particle' are integer-typed in
   g and every other column keeps its dtype class, and f had 'frame' and every guessed position
   column; a table lacking one of those is refused with KeyError -- exactly when the layout model's
   link stage says Missing, whatever the index *)
Theorem C20_gen_link_layout : forall (L : PyCoords.LinkerI) (f : PyCoords.DataFrame),
  (forall g, coords.py_link L f None "frame" = PyCoords.ROk g ->
     PyCoords.df_columns g = TrajGenLink.add_particle (PyCoords.df_columns f) /\
     PyCoords.df_float g = filter (TrajGenLink.not_label "particle")
                                  (filter (TrajGenLink.not_label "frame") (PyCoords.df_float f)) /\
     forallb (fun c => PyCoords.has_col c f) ("frame" :: PyCoords.guess_pos_columns f) = true) /\
  (forall i, forallb (fun c => PyCoords.has_col c f) ("frame" :: PyCoords.guess_pos_columns f) = false ->
     coords.py_link L f None "frame" = PyCoords.RRaise PyCoords.EKeyError /\
     st_link3 fixed (TrajGenLink.schema_of i f) = Missing).
Proof. exact (fun L f => conj (TrajGenLink.py_link_layout L f) (fun i => TrajGenLink.py_link_refuses L f i)). Qed.
Print Assumptions C20_gen_link_layout.

(* with Model/Link.v's linker and a non-empty table: what the layout model accepts is never refused
   for its layout -- the generated link returns a table with the model's columns or raises
   SubnetOversizeException *)
Theorem C20_gen_link_accepts : forall m mem max_size (f : PyCoords.DataFrame) i s',
  Cands.metric_ok m -> PyCoords.df_rows f <> [] ->
  st_link3 fixed (TrajGenLink.schema_of i f) = Ok s' ->
  coords.py_link (PyCoords.model_linker m mem max_size) f None "frame" = PyCoords.RRaise PyCoords.EOversize \/
  exists g, coords.py_link (PyCoords.model_linker m mem max_size) f None "frame" = PyCoords.ROk g /\
            cols s' = PyCoords.df_columns g /\
            PyCoords.df_float g = filter (TrajGenLink.not_label "particle")
                                         (filter (TrajGenLink.not_label "frame") (PyCoords.df_float f)).
Proof. exact TrajGenLink.py_link_accepts. Qed.
Print Assumptions C20_gen_link_accepts.

(* the generated link in front of the generated pipeline: whenever py_link returns g for a table f
   (2-D or 3-D, any index i) that has a 'size' column, the layout model's link stage maps f's schema to
   g's, g is a trajectory table, and every pipeline of generated stages runs on it and every consumer
   accepts the result *)
Theorem C20_gen_link_then_pipeline :
  forall (L : PyCoords.LinkerI) (f g : PyCoords.DataFrame) (a : filter_args) (ps : list producer) (i : list (option string)),
  coords.py_link L f None "frame" = PyCoords.ROk g -> PyCoords.has_col "size" f = true ->
  let i' := map (option_map (rename (ByStr "frame"))) i in
  st_link3 fixed (TrajGenLink.schema_of i f) = Ok (TrajGenLink.schema_of i' g) /\
  traj_cols (TrajGenLink.schema_of i' g) /\
  exists s', x_run_pipeline a ps (TrajGenLink.schema_of i' g) = ROk s' /\
             cols s' = PyCoords.df_columns g /\
             forall c : consumer, exists r, x_run_consumer a c s' = ROk r.
Proof. exact TrajPipeline3.link_then_pipeline. Qed.
Print Assumptions C20_gen_link_then_pipeline.

(* ---- non-vacuity, 3-D ------------------------------------------------------------------------------ *)
Example ex_traj_cols_3d : traj_cols default_table3 /\ has_col "z" default_table3 = true /\
  traj_cols {| idx := [Some "frame"; Some "particle"]%string; cols := cols default_table3 |}.
Proof. split; [|split]; repeat split. Qed.
Example ex_gen_pipeline_3d :
  g_run_pipeline ex_args [PSubtractDrift; PLink; PFilterStubs; PSubtractDrift; PLinkPartial] default_table3
  = ROk {| idx := [Some "frame_index"; Some "particle"]%string; cols := cols default_table3 |} /\
  x_run_pipeline ex_args [PSubtractDrift; PLink; PFilterStubs; PSubtractDrift; PLinkPartial] default_table3
  = ROk {| idx := [Some "frame_index"; Some "particle"]%string; cols := cols default_table3 |} /\
  x_run_consumer ex_args CComputeDrift default_table3 = ROk {| idx := [Some "frame"]; cols := ["z"; "y"; "x"] |}.
Proof. split; [|split]; reflexivity. Qed.
(* a 3-D table that lost its 'y' column is refused by the generated link and compute_drift stages *)
Example ex_gen_missing_3d :
  let s := {| idx := [None]; cols := ["z"; "x"; "mass"; "size"; "frame"; "particle"] |} in
  g_run_producer ex_args PLink s = RRaise EKeyError /\ x_run_consumer ex_args CComputeDrift s = RRaise EKeyError.
Proof. split; reflexivity. Qed.

(* One concrete 3-D table (Model/TrajPipeline3.v ex3_table: four features over four frames, rows out of
   frame order, 'frame' stored as floats) through the whole pipeline of generated functions
       Gen/coords.v py_link -> Gen/filtering.v py_filter_stubs -> py_filter_clusters
       -> Gen/drift.v py_compute_drift / py_subtract_drift -> Gen/msd.v py_imsd / py_emsd,
   evaluated by vm_compute ([on_run view]: the view of the run, None if a stage raised), and the layout
   pipeline of the generated stages on the same table's schema.  The numbers are those trackpy itself
   returns for this table (checked by hand against /repo when this example was written). *)
Example ex3_pipeline :
  (* link: 'particle' appended, 'frame' now integer-typed; rows by frame; (row id, frame, label) *)
  TrajPipeline3.on_run (fun r => PyCoords.df_columns (TrajPipeline3.r_linked r)) = Some ["z"; "y"; "x"; "mass"; "size"; "frame"; "particle"] /\
  TrajPipeline3.on_run (fun r => PyCoords.df_float (TrajPipeline3.r_linked r)) = Some ["z"; "y"; "x"; "mass"; "size"] /\
  TrajPipeline3.on_run (fun r => TrajPipeline3.ids_frames_labels (TrajPipeline3.r_linked r)) = Some
    [ TrajPipeline3.ifl 1 0 0; TrajPipeline3.ifl 2 0 1; TrajPipeline3.ifl 10 0 2; TrajPipeline3.ifl 0 1 0; TrajPipeline3.ifl 3 1 1; TrajPipeline3.ifl 8 1 3; TrajPipeline3.ifl 11 1 2;
      TrajPipeline3.ifl 4 2 0; TrajPipeline3.ifl 5 2 1; TrajPipeline3.ifl 9 2 3; TrajPipeline3.ifl 12 2 2; TrajPipeline3.ifl 6 3 1; TrajPipeline3.ifl 7 3 0; TrajPipeline3.ifl 13 3 2 ] /\
  (* filter_stubs(3) drops the stub (rows 8, 9); filter_clusters(threshold=4) drops the blob (rows 10..13) *)
  TrajPipeline3.on_run (fun r => map PyCoords.d_id (PyCoords.df_rows (TrajPipeline3.r_stubs r))) = Some [1; 2; 10; 0; 3; 11; 4; 5; 12; 6; 7; 13]%nat /\
  TrajPipeline3.on_run (fun r => map PyCoords.d_id (PyCoords.df_rows (TrajPipeline3.r_clusters r))) = Some [1; 2; 0; 3; 4; 5; 6; 7]%nat /\
  (* guess_pos_columns on the filters' table *)
  TrajPipeline3.on_run TrajPipeline3.r_guess = Some ["z"; "y"; "x"] /\
  (* compute_drift: one column per guessed position column, indexed by frame *)
  TrajPipeline3.on_run (fun r => TrajPipeline3.show_curve (TrajPipeline3.r_drift r)) = Some
    (["z"; "y"; "x"], [ ("z", [TrajPipeline3.fv 1 0; TrajPipeline3.fv 2 1; TrajPipeline3.fv 3 1]); ("y", [TrajPipeline3.fv 1 (1#2); TrajPipeline3.fv 2 0; TrajPipeline3.fv 3 (1#2)]);
                        ("x", [TrajPipeline3.fv 1 1; TrajPipeline3.fv 2 2; TrajPipeline3.fv 3 3]) ]) /\
  (* subtract_drift: the caller's table keeps its index, the result is indexed by (frame, particle),
     rows by (frame, particle), every position column corrected, size untouched: (row id, frame, particle, [z; y; x; size]) *)
  TrajPipeline3.on_run (fun r => (PyDrift.mt_index (TrajPipeline3.r_caller r), PyDrift.mt_index (TrajPipeline3.r_sub r), PyDrift.mt_cols (TrajPipeline3.r_sub r)))
    = Some (["frame"], ["frame"; "particle"], ["z"; "y"; "x"; "mass"; "size"]) /\
  TrajPipeline3.on_run (fun r => TrajPipeline3.show_rows (TrajPipeline3.r_sub r)) = Some
    [ TrajPipeline3.rowv 1 0 0 [3; 5; 10; 2]; TrajPipeline3.rowv 2 0 1 [7; 8; 40; 3]; TrajPipeline3.rowv 0 1 0 [3; 9#2; 10; 2]; TrajPipeline3.rowv 3 1 1 [7; 17#2; 40; 3];
      TrajPipeline3.rowv 4 2 0 [3; 5; 10; 2]; TrajPipeline3.rowv 5 2 1 [7; 8; 40; 3]; TrajPipeline3.rowv 7 3 0 [3; 9#2; 10; 2]; TrajPipeline3.rowv 6 3 1 [7; 17#2; 40; 3] ]%Q /\
  (* imsd(t, 1, 1, 3) with pos_columns=None (['x','y']) and ['z','y','x']: lag times, index name, particles, values;
     emsd(t, 1, 1, 3, detail=True, ['z','y','x']) *)
  TrajPipeline3.on_run (fun r => TrajPipeline3.show_wide (TrajPipeline3.r_imsd_xy r)) =
    Some (Some ([1; 2; 3], Some "lag time [s]", [0; 1]%Z,
                [[Some (1#4); Some 0; Some (1#4)]; [Some (1#4); Some 0; Some (1#4)]]))%Q /\
  TrajPipeline3.on_run (fun r => TrajPipeline3.show_wide (TrajPipeline3.r_imsd_zyx r)) = TrajPipeline3.on_run (fun r => TrajPipeline3.show_wide (TrajPipeline3.r_imsd_xy r)) /\
  TrajPipeline3.on_run (fun r => TrajPipeline3.show_emsd (TrajPipeline3.r_emsd_zyx r)) =
    Some (Some ([1; 2; 3]%Z,
          [ (PyMsd.LDisp 2, [Some 0; Some 0; Some 0]); (PyMsd.LDisp 1, [Some 0; Some 0; Some 0]); (PyMsd.LDisp 0, [Some 0; Some 0; Some 0]);
            (PyMsd.LSq 2, [Some 0; Some 0; Some 0]); (PyMsd.LSq 1, [Some (1#4); Some 0; Some (1#4)]); (PyMsd.LSq 0, [Some 0; Some 0; Some 0]);
            (PyMsd.LMsd, [Some (1#4); Some 0; Some (1#4)]); (PyMsd.LN, [Some 6; Some (16#5); Some 2]);
            (PyMsd.LLagt, [Some 1; Some 2; Some 3]) ]))%Q /\
  (* the layout the generated stages leave behind on the same table's schema is what the data run shows *)
  TrajPipeline3.on_run (fun r => ROk {| idx := [Some "frame"]; cols := PyCoords.df_columns (TrajPipeline3.r_clusters r) |})
    = Some (x_run_pipeline TrajPipeline3.ex3_args [PLink; PFilterStubs; PFilterClusters] TrajPipeline3.ex3_schema) /\
  TrajPipeline3.on_run (fun r => ROk {| idx := [Some "frame"; Some "particle"]; cols := PyCoords.df_columns (TrajPipeline3.r_clusters r) |})
    = Some (x_run_pipeline TrajPipeline3.ex3_args [PLink; PFilterStubs; PFilterClusters; PSubtractDrift] TrajPipeline3.ex3_schema) /\
  TrajPipeline3.on_run (fun r => ROk {| idx := [Some "frame"]; cols := PyDrift.cv_cols (TrajPipeline3.r_drift r) |})
    = Some (x_run_consumer TrajPipeline3.ex3_args CComputeDrift
              {| idx := [Some "frame"]; cols := ["z"; "y"; "x"; "mass"; "size"; "frame"; "particle"] |}).
Proof. exact TrajPipeline3.ex3_pipeline. Qed.
