(* C15 -- the least-squares objective's gradient and parameter packing are exact.
   Only statements closed by [exact]; proofs live in Proofs/{Pack,Deriv,Jacobian}.v.
   Model/Pack.v     : vect_from_params (pack) / vect_to_params (unpack), polymorphic
   Gen/fitfun.v     : r2_*, dr2_*, gauss/ring fun/dfun, regenerated from /repo on every check
   Model/Jacobian.v : per-pixel `derivs` row, one-cluster residual, np.sum packing *)
From Coq Require Import Reals List Arith Lia.
From Coquelicot Require Import Coquelicot.
From TP Require Import Gen.fitfun Model.Pack Model.Jacobian Proofs.Pack Proofs.Deriv Proofs.Jacobian.
Import ListNotations.

(* ---------------------------------------------------------------- packing *)
(* unpack (pack p) = p : for every element type, every mode list (const, var,
   global, cluster and custom group modes), every grouping, and every array p
   (columns `cols`) consistent with its modes -- global columns constant,
   group columns constant on each group, groups non-empty, in range and
   covering all rows (they may overlap) -- packing succeeds, the vector has the
   advertised length, and unpacking it into ANY array p0 of the same shape that
   agrees with p on the constant columns gives back p exactly and consumes
   exactly the packed vector.  `op` is "first" (None) or any reduction that
   returns the common value of a constant list (np.min, np.max, np.mean). *)
Theorem C15_unpack_pack :
  forall (A : Type) (op : option (list A -> option A)) (groups : groups_t) (n : nat)
         (modes : list nat) (cols cols0 : list (list A)),
  ops_ok op -> consistent groups n modes cols cols0 ->
  exists v, pack op groups modes cols = Some v /\
            length v = packed_len groups n modes /\
            forall rest, unpack groups n modes (v ++ rest) cols0 = Some (cols, rest).
Proof. exact @unpack_pack. Qed.
Print Assumptions C15_unpack_pack.

(* pack (unpack v) = v : for every vector v of the packed length, every array p0
   of the right shape, all modes and all groupings whose groups are non-empty,
   in range and pairwise disjoint (they need not cover). *)
Theorem C15_pack_unpack :
  forall (A : Type) (op : option (list A -> option A)) (groups : groups_t) (n : nat)
         (modes : list nat) (cols0 : list (list A)) (v rest : list A),
  ops_ok op -> length modes = length cols0 ->
  List.Forall (fun c => length c = n) cols0 -> List.Forall (mode_wf groups n) modes ->
  length v = packed_len groups n modes ->
  exists P, unpack groups n modes (v ++ rest) cols0 = Some (P, rest) /\
            List.Forall (fun c => length c = n) P /\
            pack op groups modes P = Some v.
Proof. exact @pack_unpack. Qed.
Print Assumptions C15_pack_unpack.

Open Scope nat_scope.
(* non-vacuity: 3 features, columns (background:cluster, signal:var, y:global, size:const),
   clusters {0,2},{1} *)
Example C15_consistent_example :
  consistent (Some [[[0; 2]; [1]]]) 3 [3; 1; 2; 0]
             [[7; 9; 7]; [1; 2; 3]; [5; 5; 5]; [4; 6; 8]] [[0; 0; 0]; [0; 0; 0]; [0; 0; 0]; [4; 6; 8]].
Proof.
  cbn. repeat split; auto; try discriminate.
  - repeat constructor; try discriminate; lia.
  - intros j Hj. cbn. lia.
  - constructor; [exists 7; repeat constructor|]. constructor; [exists 9; repeat constructor|constructor].
  - exists 5. reflexivity.
Qed.
Example C15_pack_example :
  pack None (Some [[[0; 2]; [1]]]) [3; 1; 2; 0] [[7; 9; 7]; [1; 2; 3]; [5; 5; 5]; [4; 6; 8]] = Some [7; 9; 1; 2; 3; 5]
  /\ unpack (Some [[[0; 2]; [1]]]) 3 [3; 1; 2; 0] [7; 9; 1; 2; 3; 5] [[0; 0; 0]; [0; 0; 0]; [0; 0; 0]; [4; 6; 8]]
     = Some ([[7; 9; 7]; [1; 2; 3]; [5; 5; 5]; [4; 6; 8]], []).
Proof. split; reflexivity. Qed.
Example C15_mode_wf_example : List.Forall (mode_wf (Some [[[0; 2]; [1]]]) 3) [3; 1; 2; 0].
Proof.
  repeat constructor; cbn; auto; try discriminate; lia.
Qed.

Open Scope R_scope.
(* --------------------------------------------------- scalar derivative functions *)
(* dr2_* (rows of np.vstack) are the partial derivatives of r2_* in the centre
   coordinates and sizes, in the order of the parameter slice p[2:..] *)
Theorem C15_dr2_isotropic_2d : forall y x cy cx size, size <> 0 ->
  let d := dr2_isotropic_2d y x cy cx size in
  length d = 3%nat /\
  is_derive (fun c => r2_isotropic_2d y x c cx size) cy (nth 0 d 0) /\
  is_derive (fun c => r2_isotropic_2d y x cy c size) cx (nth 1 d 0) /\
  is_derive (fun s => r2_isotropic_2d y x cy cx s) size (nth 2 d 0).
Proof. exact dr2_isotropic_2d_correct. Qed.
Print Assumptions C15_dr2_isotropic_2d.

Theorem C15_dr2_isotropic_3d : forall z y x cz cy cx size, size <> 0 ->
  let d := dr2_isotropic_3d z y x cz cy cx size in
  length d = 4%nat /\
  is_derive (fun c => r2_isotropic_3d z y x c cy cx size) cz (nth 0 d 0) /\
  is_derive (fun c => r2_isotropic_3d z y x cz c cx size) cy (nth 1 d 0) /\
  is_derive (fun c => r2_isotropic_3d z y x cz cy c size) cx (nth 2 d 0) /\
  is_derive (fun s => r2_isotropic_3d z y x cz cy cx s) size (nth 3 d 0).
Proof. exact dr2_isotropic_3d_correct. Qed.

Theorem C15_dr2_anisotropic_2d : forall y x cy cx size_y size_x, size_y <> 0 -> size_x <> 0 ->
  let d := dr2_anisotropic_2d y x cy cx size_y size_x in
  length d = 4%nat /\
  is_derive (fun c => r2_anisotropic_2d y x c cx size_y size_x) cy (nth 0 d 0) /\
  is_derive (fun c => r2_anisotropic_2d y x cy c size_y size_x) cx (nth 1 d 0) /\
  is_derive (fun s => r2_anisotropic_2d y x cy cx s size_x) size_y (nth 2 d 0) /\
  is_derive (fun s => r2_anisotropic_2d y x cy cx size_y s) size_x (nth 3 d 0).
Proof. exact dr2_anisotropic_2d_correct. Qed.

Theorem C15_dr2_anisotropic_3d : forall z y x cz cy cx size_z size_y size_x,
  size_z <> 0 -> size_y <> 0 -> size_x <> 0 ->
  let d := dr2_anisotropic_3d z y x cz cy cx size_z size_y size_x in
  length d = 6%nat /\
  is_derive (fun c => r2_anisotropic_3d z y x c cy cx size_z size_y size_x) cz (nth 0 d 0) /\
  is_derive (fun c => r2_anisotropic_3d z y x cz c cx size_z size_y size_x) cy (nth 1 d 0) /\
  is_derive (fun c => r2_anisotropic_3d z y x cz cy c size_z size_y size_x) cx (nth 2 d 0) /\
  is_derive (fun s => r2_anisotropic_3d z y x cz cy cx s size_y size_x) size_z (nth 3 d 0) /\
  is_derive (fun s => r2_anisotropic_3d z y x cz cy cx size_z s size_x) size_y (nth 4 d 0) /\
  is_derive (fun s => r2_anisotropic_3d z y x cz cy cx size_z size_y s) size_x (nth 5 d 0).
Proof. exact dr2_anisotropic_3d_correct. Qed.

(* the _safe radius functions agree with the plain ones wherever they do not NaN-out the pixel *)
Theorem C15_safe_variants_agree :
  (forall y x cy cx size, r2_isotropic_2d_safe_val y x cy cx size = r2_isotropic_2d y x cy cx size) /\
  (forall z y x cz cy cx size, r2_isotropic_3d_safe_val z y x cz cy cx size = r2_isotropic_3d z y x cz cy cx size) /\
  (forall y x cy cx sy sx, r2_anisotropic_2d_safe_val y x cy cx sy sx = r2_anisotropic_2d y x cy cx sy sx) /\
  (forall z y x cz cy cx sz sy sx, r2_anisotropic_3d_safe_val z y x cz cy cx sz sy sx = r2_anisotropic_3d z y x cz cy cx sz sy sx).
Proof. exact safe_variants_agree. Qed.

(* gauss_dfun returns (gauss_fun, [d gauss_fun / d r2]) *)
Theorem C15_gauss_dfun : forall r2 ndim,
  fst (gauss_dfun r2 ndim) = gauss_fun r2 ndim /\
  length (snd (gauss_dfun r2 ndim)) = 1%nat /\
  is_derive (fun r => gauss_fun r ndim) r2 (nth 0 (snd (gauss_dfun r2 ndim)) 0).
Proof. exact gauss_dfun_correct. Qed.

(* ring_dfun returns (ring_fun, [d/d r2, d/d thickness]); r2 > 0 is what the
   _safe radius guarantees (pixels within 1 px of the centre are dropped) *)
Theorem C15_ring_dfun : forall r2 t ndim, 0 < r2 -> t <> 0 ->
  fst (ring_dfun r2 t ndim) = ring_fun r2 t ndim /\
  length (snd (ring_dfun r2 t ndim)) = 2%nat /\
  is_derive (fun r => ring_fun r t ndim) r2 (nth 0 (snd (ring_dfun r2 t ndim)) 0) /\
  is_derive (fun u => ring_fun r2 u ndim) t (nth 1 (snd (ring_dfun r2 t ndim)) 0).
Proof. exact ring_dfun_correct. Qed.
Print Assumptions C15_ring_dfun.

(* ------------------------------------------- chain rule / assembly of `derivs` *)
(* along any straight line (cy,cx,size) + t*(dcy,dcx,dsize) the reduced radius
   has derivative  dr2 . direction   (one instance shown; 3d / anisotropic alike) *)
Theorem C15_r2_isotropic_2d_dir : forall y x cy cx size dcy dcx dsize, size <> 0 ->
  is_derive (fun t => r2_isotropic_2d y x (cy + t * dcy) (cx + t * dcx) (size + t * dsize)) 0
            (dot (dr2_isotropic_2d y x cy cx size) [dcy; dcx; dsize]).
Proof. exact r2_isotropic_2d_dir. Qed.
Theorem C15_r2_isotropic_3d_dir : forall z y x cz cy cx size dcz dcy dcx dsize, size <> 0 ->
  is_derive (fun t => r2_isotropic_3d z y x (cz + t * dcz) (cy + t * dcy) (cx + t * dcx) (size + t * dsize)) 0
            (dot (dr2_isotropic_3d z y x cz cy cx size) [dcz; dcy; dcx; dsize]).
Proof. exact r2_isotropic_3d_dir. Qed.
Theorem C15_r2_anisotropic_2d_dir : forall y x cy cx sy sx dcy dcx dsy dsx, sy <> 0 -> sx <> 0 ->
  is_derive (fun t => r2_anisotropic_2d y x (cy + t * dcy) (cx + t * dcx) (sy + t * dsy) (sx + t * dsx)) 0
            (dot (dr2_anisotropic_2d y x cy cx sy sx) [dcy; dcx; dsy; dsx]).
Proof. exact r2_anisotropic_2d_dir. Qed.
Theorem C15_r2_anisotropic_3d_dir : forall z y x cz cy cx sz sy sx dcz dcy dcx dsz dsy dsx,
  sz <> 0 -> sy <> 0 -> sx <> 0 ->
  is_derive (fun t => r2_anisotropic_3d z y x (cz + t * dcz) (cy + t * dcy) (cx + t * dcx)
                                        (sz + t * dsz) (sy + t * dsy) (sx + t * dsx)) 0
            (dot (dr2_anisotropic_3d z y x cz cy cx sz sy sx) [dcz; dcy; dcx; dsz; dsy; dsx]).
Proof. exact r2_anisotropic_3d_dir. Qed.

(* one pixel of one feature, signal * model(r2): the row jacobian() stores in
   `derivs` (model | signal*deriv[0]*dr2dx | signal*deriv[1:]) contracted with
   the direction (dsignal, dpos/dsize, dextra) is the derivative along that
   direction -- for any reduced-radius curve r2c whose derivative is dr2dx.dp *)
Theorem C15_pixel_gauss : forall (r2c : R -> R) dr2dx dp s ds ndim,
  length dr2dx = length dp ->
  is_derive r2c 0 (dot dr2dx dp) ->
  is_derive (fun t => (s + t * ds) * gauss_fun (r2c t) ndim) 0
            (dot (derivs_row s (gauss_dfun (r2c 0) ndim) dr2dx) (ds :: dp)).
Proof. exact pixel_gauss. Qed.

Theorem C15_pixel_ring : forall (r2c : R -> R) dr2dx dp s ds th dth ndim,
  length dr2dx = length dp -> 0 < r2c 0 -> th <> 0 ->
  is_derive r2c 0 (dot dr2dx dp) ->
  is_derive (fun t => (s + t * ds) * ring_fun (r2c t) (th + t * dth) ndim) 0
            (dot (derivs_row s (ring_dfun (r2c 0) th ndim) dr2dx) (ds :: dp ++ [dth])).
Proof. exact pixel_ring. Qed.
Print Assumptions C15_pixel_ring.

(* one cluster: derivative of  nansum((image - bg - sum_f val_f)^2)/len  along any
   differentiable parameter curve is  sum_x -2*diff[x]*(bg' + sum_f val_f'[x]) / len *)
Theorem C15_cluster_residual_derive :
  forall (X F : Type) (pixels : list X) (feats : list F) (len : R) (img : X -> R)
         (bgc : R -> R) (dbg : R) (valc : F -> X -> R -> R) (dval : F -> X -> R),
  is_derive bgc 0 dbg ->
  (forall f x, is_derive (valc f x) 0 (dval f x)) ->
  is_derive (fun t => cluster_residual pixels feats len img (bgc t) (fun f x => valc f x t)) 0
    (sumR (map (fun x => -2 * diff_at feats img (bgc 0) (fun f x => valc f x 0) x
                           * (dbg + sumR (map (fun f => dval f x) feats))) pixels) / len).
Proof. exact @cluster_residual_derive. Qed.
Print Assumptions C15_cluster_residual_derive.

(* chain rule through vect_to_params: packing the per-entry derivative array Gm
   with operation=np.sum gives the vector whose inner product with any direction
   w equals the inner product of Gm with unpack(w) (w[k] copied to every entry
   of its group, 0 on constant columns) -- all modes, all disjoint groupings *)
Theorem C15_pack_sum_adjoint : forall groups n modes (Gm : list (list R)) (w rest g : list R),
  length modes = length Gm -> List.Forall (fun c => length c = n) Gm ->
  List.Forall (mode_wf groups n) modes -> length w = packed_len groups n modes ->
  pack np_sum groups modes Gm = Some g ->
  exists D, unpack groups n modes (w ++ rest) (map (fun _ => repeat 0 n) modes) = Some (D, rest) /\
            length g = length w /\ dot g w = mdot Gm D.
Proof. exact pack_sum_adjoint. Qed.
Print Assumptions C15_pack_sum_adjoint.

(* non-vacuity of the calculus hypotheses: a concrete isotropic 2-d pixel *)
Example C15_pixel_gauss_instance : forall dcy dcx dsize ds,
  is_derive (fun t => (3 + t * ds) * gauss_fun (r2_isotropic_2d 1 2 (0 + t * dcy) (0 + t * dcx) (2 + t * dsize)) 2) 0
            (dot (derivs_row 3 (gauss_dfun (r2_isotropic_2d 1 2 (0 + 0 * dcy) (0 + 0 * dcx) (2 + 0 * dsize)) 2)
                             (dr2_isotropic_2d 1 2 0 0 2)) (ds :: [dcy; dcx; dsize])).
Proof.
  intros. apply (pixel_gauss (fun t => r2_isotropic_2d 1 2 (0 + t * dcy) (0 + t * dcx) (2 + t * dsize))
                             (dr2_isotropic_2d 1 2 0 0 2) [dcy; dcx; dsize] 3 ds 2).
  - reflexivity.
  - apply r2_isotropic_2d_dir. apply Rgt_not_eq. apply Rlt_gt. apply Rlt_0_2.
Qed.
