(* C15 -- the least-squares objective's gradient and parameter packing are exact.
   Only statements closed by [exact]; proofs live in Proofs/{Pack,Deriv,Jacobian}.v.
   Model/Pack.v     : vect_from_params (pack) / vect_to_params (unpack), polymorphic
   Gen/fitfun.v     : r2_*, dr2_*, gauss/ring fun/dfun, regenerated from /repo on every check
   Model/Jacobian.v : per-pixel `derivs` row, one-cluster residual, np.sum packing *)
From Coq Require Import Reals List Arith Lia.
From Coquelicot Require Import Coquelicot.
From TP Require Import Gen.fitfun Model.Pack Model.Jacobian Proofs.Pack Proofs.Deriv Proofs.Jacobian.
Import ListNotations.

(* ---------------------------------------------------------------- packing *)
(* unpack (pack p) = p : for every element type, every mode list (const, var,
   global, cluster and custom group modes), every grouping, and every array p
   (columns `cols`) consistent with its modes -- global columns constant,
   group columns constant on each group, groups non-empty, in range and
   covering all rows (they may overlap) -- packing succeeds, the vector has the
   advertised length, and unpacking it into ANY array p0 of the same shape that
   agrees with p on the constant columns gives back p exactly and consumes
   exactly the packed vector.  `op` is "first" (None) or any reduction that
   returns the common value of a constant list (np.min, np.max, np.mean). *)
Theorem C15_unpack_pack :
  forall (A : Type) (op : option (list A -> option A)) (groups : groups_t) (n : nat)
         (modes : list nat) (cols cols0 : list (list A)),
  ops_ok op -> consistent groups n modes cols cols0 ->
  exists v, pack op groups modes cols = Some v /\
            length v = packed_len groups n modes /\
            forall rest, unpack groups n modes (v ++ rest) cols0 = Some (cols, rest).
Proof. exact @unpack_pack. Qed.
Print Assumptions C15_unpack_pack.

(* pack (unpack v) = v : for every vector v of the packed length, every array p0
   of the right shape, all modes and all groupings whose groups are non-empty,
   in range and pairwise disjoint (they need not cover). *)
Theorem C15_pack_unpack :
  forall (A : Type) (op : option (list A -> option A)) (groups : groups_t) (n : nat)
         (modes : list nat) (cols0 : list (list A)) (v rest : list A),
  ops_ok op -> length modes = length cols0 ->
  List.Forall (fun c => length c = n) cols0 -> List.Forall (mode_wf groups n) modes ->
  length v = packed_len groups n modes ->
  exists P, unpack groups n modes (v ++ rest) cols0 = Some (P, rest) /\
            List.Forall (fun c => length c = n) P /\
            pack op groups modes P = Some v.
Proof. exact @pack_unpack. Qed.
Print Assumptions C15_pack_unpack.

Open Scope nat_scope.
(* non-vacuity: 3 features, columns (background:cluster, signal:var, y:global, size:const),
   clusters {0,2},{1} *)
Example C15_consistent_example :
  consistent (Some [[[0; 2]; [1]]]) 3 [3; 1; 2; 0]
             [[7; 9; 7]; [1; 2; 3]; [5; 5; 5]; [4; 6; 8]] [[0; 0; 0]; [0; 0; 0]; [0; 0; 0]; [4; 6; 8]].
Proof.
  cbn. repeat split; auto; try discriminate.
  - repeat constructor; try discriminate; lia.
  - intros j Hj. cbn. lia.
  - constructor; [exists 7; repeat constructor|]. constructor; [exists 9; repeat constructor|constructor].
  - exists 5. reflexivity.
Qed.
Example C15_pack_example :
  pack None (Some [[[0; 2]; [1]]]) [3; 1; 2; 0] [[7; 9; 7]; [1; 2; 3]; [5; 5; 5]; [4; 6; 8]] = Some [7; 9; 1; 2; 3; 5]
  /\ unpack (Some [[[0; 2]; [1]]]) 3 [3; 1; 2; 0] [7; 9; 1; 2; 3; 5] [[0; 0; 0]; [0; 0; 0]; [0; 0; 0]; [4; 6; 8]]
     = Some ([[7; 9; 7]; [1; 2; 3]; [5; 5; 5]; [4; 6; 8]], []).
Proof. split; reflexivity. Qed.
Example C15_mode_wf_example : List.Forall (mode_wf (Some [[[0; 2]; [1]]]) 3) [3; 1; 2; 0].
Proof.
  repeat constructor; cbn; auto; try discriminate; lia.
Qed.

Open Scope R_scope.
(* --------------------------------------------------- scalar derivative functions *)
(* dr2_* (rows of np.vstack) are the partial derivatives of r2_* in the centre
   coordinates and sizes, in the order of the parameter slice p[2:..] *)
Theorem C15_dr2_isotropic_2d : forall y x cy cx size, size <> 0 ->
  let d := dr2_isotropic_2d y x cy cx size in
  length d = 3%nat /\
  is_derive (fun c => r2_isotropic_2d y x c cx size) cy (nth 0 d 0) /\
  is_derive (fun c => r2_isotropic_2d y x cy c size) cx (nth 1 d 0) /\
  is_derive (fun s => r2_isotropic_2d y x cy cx s) size (nth 2 d 0).
Proof. exact dr2_isotropic_2d_correct. Qed.
Print Assumptions C15_dr2_isotropic_2d.

Theorem C15_dr2_isotropic_3d : forall z y x cz cy cx size, size <> 0 ->
  let d := dr2_isotropic_3d z y x cz cy cx size in
  length d = 4%nat /\
  is_derive (fun c => r2_isotropic_3d z y x c cy cx size) cz (nth 0 d 0) /\
  is_derive (fun c => r2_isotropic_3d z y x cz c cx size) cy (nth 1 d 0) /\
  is_derive (fun c => r2_isotropic_3d z y x cz cy c size) cx (nth 2 d 0) /\
  is_derive (fun s => r2_isotropic_3d z y x cz cy cx s) size (nth 3 d 0).
Proof. exact dr2_isotropic_3d_correct. Qed.

Theorem C15_dr2_anisotropic_2d : forall y x cy cx size_y size_x, size_y <> 0 -> size_x <> 0 ->
  let d := dr2_anisotropic_2d y x cy cx size_y size_x in
  length d = 4%nat /\
  is_derive (fun c => r2_anisotropic_2d y x c cx size_y size_x) cy (nth 0 d 0) /\
  is_derive (fun c => r2_anisotropic_2d y x cy c size_y size_x) cx (nth 1 d 0) /\
  is_derive (fun s => r2_anisotropic_2d y x cy cx s size_x) size_y (nth 2 d 0) /\
  is_derive (fun s => r2_anisotropic_2d y x cy cx size_y s) size_x (nth 3 d 0).
Proof. exact dr2_anisotropic_2d_correct. Qed.

Theorem C15_dr2_anisotropic_3d : forall z y x cz cy cx size_z size_y size_x,
  size_z <> 0 -> size_y <> 0 -> size_x <> 0 ->
  let d := dr2_anisotropic_3d z y x cz cy cx size_z size_y size_x in
  length d = 6%nat /\
  is_derive (fun c => r2_anisotropic_3d z y x c cy cx size_z size_y size_x) cz (nth 0 d 0) /\
  is_derive (fun c => r2_anisotropic_3d z y x cz c cx size_z size_y size_x) cy (nth 1 d 0) /\
  is_derive (fun c => r2_anisotropic_3d z y x cz cy c size_z size_y size_x) cx (nth 2 d 0) /\
  is_derive (fun s => r2_anisotropic_3d z y x cz cy cx s size_y size_x) size_z (nth 3 d 0) /\
  is_derive (fun s => r2_anisotropic_3d z y x cz cy cx size_z s size_x) size_y (nth 4 d 0) /\
  is_derive (fun s => r2_anisotropic_3d z y x cz cy cx size_z size_y s) size_x (nth 5 d 0).
Proof. exact dr2_anisotropic_3d_correct. Qed.

(* the _safe radius functions agree with the plain ones wherever they do not NaN-out the pixel *)
Theorem C15_safe_variants_agree :
  (forall y x cy cx size, r2_isotropic_2d_safe_val y x cy cx size = r2_isotropic_2d y x cy cx size) /\
  (forall z y x cz cy cx size, r2_isotropic_3d_safe_val z y x cz cy cx size = r2_isotropic_3d z y x cz cy cx size) /\
  (forall y x cy cx sy sx, r2_anisotropic_2d_safe_val y x cy cx sy sx = r2_anisotropic_2d y x cy cx sy sx) /\
  (forall z y x cz cy cx sz sy sx, r2_anisotropic_3d_safe_val z y x cz cy cx sz sy sx = r2_anisotropic_3d z y x cz cy cx sz sy sx).
Proof. exact safe_variants_agree. Qed.

(* gauss_dfun returns (gauss_fun, [d gauss_fun / d r2]) *)
Theorem C15_gauss_dfun : forall r2 ndim,
  fst (gauss_dfun r2 ndim) = gauss_fun r2 ndim /\
  length (snd (gauss_dfun r2 ndim)) = 1%nat /\
  is_derive (fun r => gauss_fun r ndim) r2 (nth 0 (snd (gauss_dfun r2 ndim)) 0).
Proof. exact gauss_dfun_correct. Qed.

(* ring_dfun returns (ring_fun, [d/d r2, d/d thickness]); r2 > 0 is what the
   _safe radius guarantees (pixels within 1 px of the centre are dropped) *)
Theorem C15_ring_dfun : forall r2 t ndim, 0 < r2 -> t <> 0 ->
  fst (ring_dfun r2 t ndim) = ring_fun r2 t ndim /\
  length (snd (ring_dfun r2 t ndim)) = 2%nat /\
  is_derive (fun r => ring_fun r t ndim) r2 (nth 0 (snd (ring_dfun r2 t ndim)) 0) /\
  is_derive (fun u => ring_fun r2 u ndim) t (nth 1 (snd (ring_dfun r2 t ndim)) 0).
Proof. exact ring_dfun_correct. Qed.
Print Assumptions C15_ring_dfun.

(* ------------------------------------------- chain rule / assembly of `derivs` *)
(* along any straight line (cy,cx,size) + t*(dcy,dcx,dsize) the reduced radius
   has derivative  dr2 . direction   (one instance shown; 3d / anisotropic alike) *)
Theorem C15_r2_isotropic_2d_dir : forall y x cy cx size dcy dcx dsize, size <> 0 ->
  is_derive (fun t => r2_isotropic_2d y x (cy + t * dcy) (cx + t * dcx) (size + t * dsize)) 0
            (dot (dr2_isotropic_2d y x cy cx size) [dcy; dcx; dsize]).
Proof. exact r2_isotropic_2d_dir. Qed.
Theorem C15_r2_isotropic_3d_dir : forall z y x cz cy cx size dcz dcy dcx dsize, size <> 0 ->
  is_derive (fun t => r2_isotropic_3d z y x (cz + t * dcz) (cy + t * dcy) (cx + t * dcx) (size + t * dsize)) 0
            (dot (dr2_isotropic_3d z y x cz cy cx size) [dcz; dcy; dcx; dsize]).
Proof. exact r2_isotropic_3d_dir. Qed.
Theorem C15_r2_anisotropic_2d_dir : forall y x cy cx sy sx dcy dcx dsy dsx, sy <> 0 -> sx <> 0 ->
  is_derive (fun t => r2_anisotropic_2d y x (cy + t * dcy) (cx + t * dcx) (sy + t * dsy) (sx + t * dsx)) 0
            (dot (dr2_anisotropic_2d y x cy cx sy sx) [dcy; dcx; dsy; dsx]).
Proof. exact r2_anisotropic_2d_dir. Qed.
Theorem C15_r2_anisotropic_3d_dir : forall z y x cz cy cx sz sy sx dcz dcy dcx dsz dsy dsx,
  sz <> 0 -> sy <> 0 -> sx <> 0 ->
  is_derive (fun t => r2_anisotropic_3d z y x (cz + t * dcz) (cy + t * dcy) (cx + t * dcx)
                                        (sz + t * dsz) (sy + t * dsy) (sx + t * dsx)) 0
            (dot (dr2_anisotropic_3d z y x cz cy cx sz sy sx) [dcz; dcy; dcx; dsz; dsy; dsx]).
Proof. exact r2_anisotropic_3d_dir. Qed.

(* one pixel of one feature, signal * model(r2): the row jacobian() stores in
   `derivs` (model | signal*deriv[0]*dr2dx | signal*deriv[1:]) contracted with
   the direction (dsignal, dpos/dsize, dextra) is the derivative along that
   direction -- for any reduced-radius curve r2c whose derivative is dr2dx.dp *)
Theorem C15_pixel_gauss : forall (r2c : R -> R) dr2dx dp s ds ndim,
  length dr2dx = length dp ->
  is_derive r2c 0 (dot dr2dx dp) ->
  is_derive (fun t => (s + t * ds) * gauss_fun (r2c t) ndim) 0
            (dot (derivs_row s (gauss_dfun (r2c 0) ndim) dr2dx) (ds :: dp)).
Proof. exact pixel_gauss. Qed.

Theorem C15_pixel_ring : forall (r2c : R -> R) dr2dx dp s ds th dth ndim,
  length dr2dx = length dp -> 0 < r2c 0 -> th <> 0 ->
  is_derive r2c 0 (dot dr2dx dp) ->
  is_derive (fun t => (s + t * ds) * ring_fun (r2c t) (th + t * dth) ndim) 0
            (dot (derivs_row s (ring_dfun (r2c 0) th ndim) dr2dx) (ds :: dp ++ [dth])).
Proof. exact pixel_ring. Qed.
Print Assumptions C15_pixel_ring.

(* one cluster: derivative of  nansum((image - bg - sum_f val_f)^2)/len  along any
   differentiable parameter curve is  sum_x -2*diff[x]*(bg' + sum_f val_f'[x]) / len *)
Theorem C15_cluster_residual_derive :
  forall (X F : Type) (pixels : list X) (feats : list F) (len : R) (img : X -> R)
         (bgc : R -> R) (dbg : R) (valc : F -> X -> R -> R) (dval : F -> X -> R),
  is_derive bgc 0 dbg ->
  (forall f x, is_derive (valc f x) 0 (dval f x)) ->
  is_derive (fun t => cluster_residual pixels feats len img (bgc t) (fun f x => valc f x t)) 0
    (sumR (map (fun x => -2 * diff_at feats img (bgc 0) (fun f x => valc f x 0) x
                           * (dbg + sumR (map (fun f => dval f x) feats))) pixels) / len).
Proof. exact @cluster_residual_derive. Qed.
Print Assumptions C15_cluster_residual_derive.

(* chain rule through vect_to_params: packing the per-entry derivative array Gm
   with operation=np.sum gives the vector whose inner product with any direction
   w equals the inner product of Gm with unpack(w) (w[k] copied to every entry
   of its group, 0 on constant columns) -- all modes, all disjoint groupings *)
Theorem C15_pack_sum_adjoint : forall groups n modes (Gm : list (list R)) (w rest g : list R),
  length modes = length Gm -> List.Forall (fun c => length c = n) Gm ->
  List.Forall (mode_wf groups n) modes -> length w = packed_len groups n modes ->
  pack np_sum groups modes Gm = Some g ->
  exists D, unpack groups n modes (w ++ rest) (map (fun _ => repeat 0 n) modes) = Some (D, rest) /\
            length g = length w /\ dot g w = mdot Gm D.
Proof. exact pack_sum_adjoint. Qed.
Print Assumptions C15_pack_sum_adjoint.

(* non-vacuity of the calculus hypotheses: a concrete isotropic 2-d pixel *)
Example C15_pixel_gauss_instance : forall dcy dcx dsize ds,
  is_derive (fun t => (3 + t * ds) * gauss_fun (r2_isotropic_2d 1 2 (0 + t * dcy) (0 + t * dcx) (2 + t * dsize)) 2) 0
            (dot (derivs_row 3 (gauss_dfun (r2_isotropic_2d 1 2 (0 + 0 * dcy) (0 + 0 * dcx) (2 + 0 * dsize)) 2)
                             (dr2_isotropic_2d 1 2 0 0 2)) (ds :: [dcy; dcx; dsize])).
Proof.
  intros. apply (pixel_gauss (fun t => r2_isotropic_2d 1 2 (0 + t * dcy) (0 + t * dcx) (2 + t * dsize))
                             (dr2_isotropic_2d 1 2 0 0 2) [dcy; dcx; dsize] 3 ds 2).
  - reflexivity.
  - apply r2_isotropic_2d_dir. apply Rgt_not_eq. apply Rlt_gt. apply Rlt_0_2.
Qed.

(* ======================================================================
   Final composition: jacobian(vect) is the gradient of residual(vect).
   Model/Jacobian2.v : residual / jacobian of FitFunctions.get_residual as
                       functions of the packed vector (unpack, loop over the
                       clusters, writes into `result`, pack with np.sum, /norm)
   Proofs/Jacobian2.v: the composition of the pieces above
   ====================================================================== *)
From Coq Require Import Lra.
From TP Require Import Model.Jacobian2 Proofs.Jacobian2.

(* vect_to_params only copies entries: it commutes with ANY element-wise
   combination h of two vectors / two arrays -- for arbitrary element types
   A, B, C (no arithmetic involved), all modes and all disjoint groupings.
   With h a b = a + t*b this is "unpack is affine in the vector". *)
Theorem C15_unpack_natural :
  forall (A B C : Type) (h : A -> B -> C) (groups : groups_t) (n : nat) (modes : list nat)
         (cs0 : list (list A)) (ds0 : list (list B)) (v : list A) (w : list B)
         (r1 : list A) (r2 : list B) (r3 : list C),
  length modes = length cs0 -> length modes = length ds0 ->
  List.Forall (fun c => length c = n) cs0 -> List.Forall (fun c => length c = n) ds0 ->
  List.Forall (mode_wf groups n) modes ->
  length v = packed_len groups n modes -> length w = packed_len groups n modes ->
  exists P D, unpack groups n modes (v ++ r1) cs0 = Some (P, r1) /\
              unpack groups n modes (w ++ r2) ds0 = Some (D, r2) /\
              unpack groups n modes (zipw h v w ++ r3) (zipw (zipw h) cs0 ds0)
                = Some (zipw (zipw h) P D, r3) /\
              List.Forall (fun c => length c = n) P /\ List.Forall (fun c => length c = n) D /\
              length P = length modes /\ length D = length modes.
Proof. exact @unpack_zipw. Qed.
Print Assumptions C15_unpack_natural.

(* THE GRADIENT IS EXACT.
   cls     : the clusters, zip(cl_groups, images, meshes, masks); per cluster the
             rows `cl_idx`, the pixels `cl_pix` that survive np.nansum, len(image),
             image, and per feature row i / pixel x / parameter row p
               cl_val i x p = what the feature subtracts from diff[x]
               cl_row i x p = derivs[j, :, x]
   modes   : m0 :: ms, one mode per column (background first); ANY modes
             (const, var, global, cluster, custom groups) on the columns ms
   groups  : ANY grouping whose used groups are non-empty, in range and disjoint (mode_wf)
   cols0   : params_const;  v : the packed vector, of the packed length
   Hypotheses: the clusters are cl_groups (= groups[0], or arange(n) if groups is
   None) and partition the rows; the background mode is compatible with one
   background per cluster (always true for const/global/cluster, see below);
   and, at the parameters P = vect_to_params(v), derivs[j,:,x] is the gradient
   of the feature's contribution in the feature's own row p[1:] (background
   excluded) -- proved for gauss and ring in all geometries further down.
   Conclusion: jacobian(v) returns a vector g of the length of v with
     - d/dt residual(v + t*w) at t=0  =  <g, w>   for EVERY direction w, and
     - d/ds residual(v[k := s]) at s = v[k]  =  g[k]   for EVERY component k. *)
Theorem C15_gradient_exact :
  forall (X : Type) (cls : list (cluster X)) (groups : groups_t) (n m0 : nat) (ms : list nat)
         (cols0 : list (list R)) (norm : R) (v : list R),
  length (m0 :: ms) = length cols0 ->
  List.Forall (fun c => length c = n) cols0 ->
  List.Forall (mode_wf groups n) (m0 :: ms) ->
  length v = packed_len groups n (m0 :: ms) ->
  map cl_idx cls = cl_groups_of groups n ->
  partition n (cl_groups_of groups n) ->
  bg_mode_ok groups (cl_groups_of groups n) m0 ->
  (forall P rest, unpack groups n (m0 :: ms) v cols0 = Some (P, rest) ->
     forall c i x dp, In c cls -> In i (cl_idx c) -> In x (cl_pix c) -> length dp = length (m0 :: ms) ->
     is_derive (fun t => cl_val c i x (line (row_of P i) dp t)) 0
               (dot (cl_row c i x (row_of P i)) (tl dp))) ->
  exists g, jacobian cls groups n (m0 :: ms) cols0 norm v = Some g /\
            length g = length v /\
    (forall w, length w = length v ->
       is_derive (fun t => residual cls groups n (m0 :: ms) cols0 norm (line v w t)) 0 (dot g w)) /\
    (forall k, (k < length v)%nat ->
       is_derive (fun s => residual cls groups n (m0 :: ms) cols0 norm (upd v k s)) (nth k v 0) (nth k g 0)).
Proof. exact @gradient_exact. Qed.
Print Assumptions C15_gradient_exact.

(* the side conditions are dischargeable: const (0), global (2) and cluster (3)
   are admissible background modes for every grouping, and groups=None gives
   the single cluster arange(n) *)
Theorem C15_bg_mode_builtin : forall groups n m0,
  m0 = 0%nat \/ m0 = 2%nat \/ m0 = 3%nat -> mode_wf groups n m0 ->
  bg_mode_ok groups (cl_groups_of groups n) m0.
Proof. exact bg_mode_ok_builtin. Qed.
Theorem C15_partition_none : forall n, (0 < n)%nat -> partition n (cl_groups_of None n).
Proof. exact partition_none. Qed.

(* the sum exchange on its own (pure algebra, no derivative): the array
   `result` written by the loop over the clusters, contracted with any
   direction array D whose background column is constant on every cluster,
   is the sum over the clusters of
     sum_x -2*diff[x]*(D[indices[0],0] + sum_f <derivs[f,:,x], D[f,1:]>) / len(image) *)
Theorem C15_jacobian_sum_exchange :
  forall (X : Type) (cls : list (cluster X)) (n nv' : nat) (P D : list (list R)),
  partition n (map cl_idx cls) -> length D = S nv' -> List.Forall (fun c => length c = n) D ->
  (forall c i, In c cls -> In i (cl_idx c) ->
     nth i (nth 0 D []) 0 = nth (hd 0%nat (cl_idx c)) (nth 0 D []) 0) ->
  mdot (to_cols n (S nv') (jac_arr cls P)) D
  = sumR (map (fun c =>
      sumR (map (fun x => -2 * diff_at (cl_idx c) (cl_img c) (bg_of c P) (vals_of c P) x
                          * (nth (hd 0%nat (cl_idx c)) (nth 0 D []) 0
                             + sumR (map (fun i => dot (rows_of c P i x) (tl (row_of D i))) (cl_idx c))))
                (cl_pix c)) / cl_len c) cls).
Proof. exact @assemble. Qed.

(* the four (r2_fun, dr2_fun) pairs: dr2 is the gradient of r2 in the
   position/size slice wherever all sizes are non-zero *)
Theorem C15_geometries_ok :
  geom_ok geom_iso2d ok_iso2d /\ geom_ok geom_iso3d ok_iso3d /\
  geom_ok geom_aniso2d ok_aniso2d /\ geom_ok geom_aniso3d ok_aniso3d.
Proof. exact (conj geom_iso2d_ok (conj geom_iso3d_ok (conj geom_aniso2d_ok geom_aniso3d_ok))). Qed.

(* gauss, any sound geometry G (2-D/3-D, isotropic/anisotropic): rows are
   (background, signal, <pos>, <size>); cl_val / cl_row are the generated
   gauss_fun / gauss_dfun / r2 / dr2 under the feature masks.  Admissible
   = every size non-zero at the current parameters. *)
Theorem C15_gradient_exact_gauss :
  forall (X : Type) (G : geometry) (okq : list R -> Prop), geom_ok G okq ->
  forall (ndim : R) (mesh : cluster X -> X -> list R) (mask : cluster X -> nat -> X -> bool)
         (cls : list (cluster X)) (groups : groups_t) (n m0 : nat) (ms : list nat)
         (cols0 : list (list R)) (norm : R) (v : list R),
  length (m0 :: ms) = length cols0 ->
  List.Forall (fun c => length c = n) cols0 ->
  List.Forall (mode_wf groups n) (m0 :: ms) ->
  length v = packed_len groups n (m0 :: ms) ->
  map cl_idx cls = cl_groups_of groups n ->
  partition n (cl_groups_of groups n) ->
  bg_mode_ok groups (cl_groups_of groups n) m0 ->
  length ms = (1 + g_np G)%nat ->
  (forall c, In c cls -> cl_val c = gauss_val G ndim (mesh c) (mask c) /\
                         cl_row c = gauss_row G ndim (mesh c) (mask c)) ->
  (forall P rest, unpack groups n (m0 :: ms) v cols0 = Some (P, rest) ->
     forall c i, In c cls -> In i (cl_idx c) -> okq (geo_slice G (row_of P i))) ->
  exists g, jacobian cls groups n (m0 :: ms) cols0 norm v = Some g /\ length g = length v /\
    (forall w, length w = length v ->
       is_derive (fun t => residual cls groups n (m0 :: ms) cols0 norm (line v w t)) 0 (dot g w)) /\
    (forall k, (k < length v)%nat ->
       is_derive (fun s => residual cls groups n (m0 :: ms) cols0 norm (upd v k s)) (nth k v 0) (nth k g 0)).
Proof. exact @gradient_exact_gauss. Qed.
Print Assumptions C15_gradient_exact_gauss.

(* ring: rows are (background, signal, <pos>, <size>, thickness).  Admissible
   = sizes and thickness non-zero and every masked surviving pixel at positive
   reduced radius (the _safe radius functions NaN-out r < 1 px). *)
Theorem C15_gradient_exact_ring :
  forall (X : Type) (G : geometry) (okq : list R -> Prop), geom_ok G okq ->
  forall (ndim : R) (mesh : cluster X -> X -> list R) (mask : cluster X -> nat -> X -> bool)
         (cls : list (cluster X)) (groups : groups_t) (n m0 : nat) (ms : list nat)
         (cols0 : list (list R)) (norm : R) (v : list R),
  length (m0 :: ms) = length cols0 ->
  List.Forall (fun c => length c = n) cols0 ->
  List.Forall (mode_wf groups n) (m0 :: ms) ->
  length v = packed_len groups n (m0 :: ms) ->
  map cl_idx cls = cl_groups_of groups n ->
  partition n (cl_groups_of groups n) ->
  bg_mode_ok groups (cl_groups_of groups n) m0 ->
  length ms = (2 + g_np G)%nat ->
  (forall c, In c cls -> cl_val c = ring_val G ndim (mesh c) (mask c) /\
                         cl_row c = ring_row G ndim (mesh c) (mask c)) ->
  (forall P rest, unpack groups n (m0 :: ms) v cols0 = Some (P, rest) ->
     forall c i, In c cls -> In i (cl_idx c) ->
       okq (geo_slice G (row_of P i)) /\ nth (2 + g_np G) (row_of P i) 0 <> 0 /\
       forall x, In x (cl_pix c) -> mask c i x = true -> 0 < g_r2 G (mesh c x) (geo_slice G (row_of P i))) ->
  exists g, jacobian cls groups n (m0 :: ms) cols0 norm v = Some g /\ length g = length v /\
    (forall w, length w = length v ->
       is_derive (fun t => residual cls groups n (m0 :: ms) cols0 norm (line v w t)) 0 (dot g w)) /\
    (forall k, (k < length v)%nat ->
       is_derive (fun s => residual cls groups n (m0 :: ms) cols0 norm (upd v k s)) (nth k v 0) (nth k g 0)).
Proof. exact @gradient_exact_ring. Qed.
Print Assumptions C15_gradient_exact_ring.

(* non-vacuity: two single-feature clusters, 2-D isotropic gauss, modes
   (background:cluster, signal:var, y:var, x:var, size:const), three pixels per
   sub-image: every hypothesis of C15_gradient_exact_gauss holds, so all eight
   partial derivatives of the residual are the entries of jacobian(v) *)
Definition C15_ex_cluster (i : nat) : cluster nat :=
  mkCluster [i] [0%nat; 1%nat; 2%nat] 3 (fun x => INR x)
            (gauss_val geom_iso2d 2 (fun x => [INR x; 1]) (fun _ _ => true))
            (gauss_row geom_iso2d 2 (fun x => [INR x; 1]) (fun _ _ => true)).
Definition C15_ex_groups : groups_t := Some [[[0%nat]; [1%nat]]].
Definition C15_ex_cols0 : list (list R) := [[0; 0]; [0; 0]; [0; 0]; [0; 0]; [2; 2]].
Definition C15_ex_v : list R := [1; 1; 3; 4; 0; 1; 1; 0].

Example C15_gradient_exact_instance :
  exists g, jacobian [C15_ex_cluster 0; C15_ex_cluster 1] C15_ex_groups 2 [3; 1; 1; 1; 0]%nat C15_ex_cols0 1 C15_ex_v = Some g /\
            length g = 8%nat /\
    (forall k, (k < 8)%nat ->
       is_derive (fun s => residual [C15_ex_cluster 0; C15_ex_cluster 1] C15_ex_groups 2 [3; 1; 1; 1; 0]%nat
                                    C15_ex_cols0 1 (upd C15_ex_v k s))
                 (nth k C15_ex_v 0) (nth k g 0)).
Proof.
  destruct (gradient_exact_gauss geom_iso2d ok_iso2d geom_iso2d_ok 2
              (fun _ x => [INR x; 1]) (fun _ _ _ => true)
              [C15_ex_cluster 0; C15_ex_cluster 1] C15_ex_groups 2 3 [1; 1; 1; 0]%nat C15_ex_cols0 1 C15_ex_v)
    as (g & Hj & Lg & _ & Hk).
  - reflexivity.
  - repeat constructor.
  - repeat constructor; cbn; auto; try discriminate; lia.
  - reflexivity.
  - reflexivity.
  - split; [|split]; cbn.
    + repeat constructor; try discriminate; lia.
    + repeat constructor; cbn; intuition lia.
    + intros j Hj'. cbn. lia.
  - apply bg_mode_ok_builtin; [auto|]. cbn. split.
    + repeat constructor; try discriminate; lia.
    + repeat constructor; cbn; intuition lia.
  - reflexivity.
  - intros c [<-|[<-|[]]]; split; reflexivity.
  - intros P rest H c i Hc Hi. cbn in H. inversion H; subst P.
    destruct Hc as [<-|[<-|[]]]; destruct Hi as [<-|[]]; unfold ok_iso2d; cbn; lra.
  - exists g. split; [exact Hj|]. split; [exact Lg|]. exact Hk.
Qed.

(* ======================================================================
   Route T for the packing and the assembly: tools/py2coq_fitpack.py
   regenerates Gen/fitpack.v from the CURRENT source of
     vect_from_params, vect_to_params, MODE_DICT,
     FitFunctions.__init__ (param_mode -> self.modes),
     FitFunctions.get_residual (cl_groups, residual, jacobian)
   on every run of the check (vocabulary: Model/PyFitpack.v; a Python
   exception is PRaise).  Proofs/FitpackGen.v and Proofs/FitpackGen2.v show
   that the generated functions are the hand-written models above, for all
   inputs; the headline theorems are restated for the generated functions.
   ====================================================================== *)
From TP Require Import Model.PyFitpack Gen.fitpack Proofs.FitpackGen.
Close Scope R_scope.

(* generated vect_from_params = Model/Pack.v's pack (exception = None), every
   element type, modes, grouping and operation.  modes <> []: Python's
   `assert min(modes) >= 0` raises on an empty mode list, the model returns []. *)
Theorem C15_gen_vect_from_params_is_model :
  forall (A : Type) (n : nat) (params : list (list A)) (modes : list nat) (groups : groups_t)
         (op : option (list A -> option A)),
  modes <> [] -> pres_opt (vect_from_params n params modes groups op) = pack op groups modes params.
Proof. exact @gen_vect_from_params_eq. Qed.
Print Assumptions C15_gen_vect_from_params_is_model.

(* generated vect_to_params = Model/Pack.v's unpack (which also returns the unread tail) *)
Theorem C15_gen_vect_to_params_is_model :
  forall (A : Type) (n : nat) (params : list (list A)) (modes : list nat) (groups : groups_t) (vect : list A),
  modes <> [] -> pres_opt (vect_to_params vect n params modes groups) = option_map fst (unpack groups n modes vect params).
Proof. exact @gen_vect_to_params_eq. Qed.
Print Assumptions C15_gen_vect_to_params_is_model.

(* C15_unpack_pack for the generated functions: unpack(pack p) = p *)
Theorem C15_gen_unpack_pack :
  forall (A : Type) (op : option (list A -> option A)) (groups : groups_t) (n : nat)
         (modes : list nat) (cols cols0 : list (list A)),
  modes <> [] -> ops_ok op -> consistent groups n modes cols cols0 ->
  exists v, vect_from_params n cols modes groups op = POk v /\
            length v = packed_len groups n modes /\
            vect_to_params v n cols0 modes groups = POk cols.
Proof. exact @gen_unpack_pack. Qed.
Print Assumptions C15_gen_unpack_pack.

(* C15_pack_unpack for the generated functions: pack(unpack v) = v *)
Theorem C15_gen_pack_unpack :
  forall (A : Type) (op : option (list A -> option A)) (groups : groups_t) (n : nat)
         (modes : list nat) (cols0 : list (list A)) (v : list A),
  modes <> [] -> ops_ok op -> length modes = length cols0 ->
  List.Forall (fun c => length c = n) cols0 -> List.Forall (mode_wf groups n) modes ->
  length v = packed_len groups n modes ->
  exists P, vect_to_params v n cols0 modes groups = POk P /\
            List.Forall (fun c => length c = n) P /\
            vect_from_params n P modes groups op = POk v.
Proof. exact @gen_pack_unpack. Qed.
Print Assumptions C15_gen_pack_unpack.

(* FitFunctions.__init__, generated: whatever param_mode is passed, when the
   block completes self.params = (background, signal, <pos>, <size>, <model
   parameters>), self.modes has one entry per parameter and the background
   mode is never 1 ('var'): it was rewritten to 3 ('cluster') with exactly one
   warning, or no warning was issued.  (With background in {0, 2, 3} the
   hypothesis bg_mode_ok of C15_gradient_exact holds: C15_bg_mode_builtin.) *)
Theorem C15_gen_init_background_never_var :
  forall pos size fp iso pm params modes warns,
  init_modes pos size fp iso pm = POk (params, modes, warns) ->
  params = s_background :: s_signal :: pos ++ size ++ fp /\      (* "background", "signal" *)
  length modes = length params /\
  hd 0%Z modes <> 1%Z /\
  (warns = [] \/ (warns = [background_warning] /\ hd 0%Z modes = 3%Z)).
Proof. exact gen_init_modes_background. Qed.
Print Assumptions C15_gen_init_background_never_var.

(* ---- the closures of FitFunctions.get_residual, generated, read over R ----
   R_ops        : the real numbers as the number type of the generated closures
   py_items     : zip(cl_groups, images, meshes, masks)
   cluster_of   : one such element as a cluster of Model/Jacobian2.v: rows `indices`,
                  live pixels / len(image) / values of `image`, and
                    cl_val i x p = signal * model_fun(r2_fun(mesh[:, x], p), p[-n_fun_params:], ndim) under the
                                   mask that zip(indices, masks_cl) pairs with row i, else 0
                    cl_row i x p = derivs_row signal (model_dfun ...) (dr2_fun ...) under that mask, else []
   item_ok      : the rows of a cluster are distinct and it has one mask per row *)
From TP Require Import Proofs.FitpackGen2.
Open Scope R_scope.

(* residual(vect), generated = the model's residual whenever vect_to_params succeeds; else it raises *)
Theorem C15_gen_residual_is_model :
  forall (X : Type) (r2_fun : list R -> list R -> R) (dr2_fun : list R -> list R -> list R)
         (model_fun : R -> list R -> R -> R) (model_dfun : R -> list R -> R -> R * list R)
         (fp : list String.string) (ndim : R) (dr2_len dfun_len : nat)
         (images : list (image R X)) (meshes : list (X -> list R)) (masks : list (list (X -> bool)))
         (n : nat) (cols0 : list (list R)) (groups : groups_t) (norm : R) (modes : list nat) (v : list R),
  modes <> [] -> List.Forall item_ok (py_items images meshes masks n groups) ->
  match unpack groups n modes v cols0 with
  | Some _ => get_residual_residual R_ops r2_fun dr2_fun model_fun model_dfun fp ndim modes dr2_len dfun_len
                                    images meshes masks n cols0 groups norm v
              = POk (residual (py_clusters r2_fun dr2_fun model_fun model_dfun fp ndim images meshes masks n groups)
                              groups n modes cols0 norm v)
  | None => exists e, get_residual_residual R_ops r2_fun dr2_fun model_fun model_dfun fp ndim modes dr2_len dfun_len
                                            images meshes masks n cols0 groups norm v = PRaise e
  end.
Proof. exact @gen_residual_eq. Qed.
Print Assumptions C15_gen_residual_is_model.

(* jacobian(vect), generated = the model's jacobian (a Python exception is None).
   Hypotheses on the functions stored in self: model_dfun returns (model_fun,
   n_fun_params + 1 derivatives) and dr2_fun returns dr2_len rows, whatever the pixel;
   on the shapes: params_const is n x len(modes) and a parameter row is
   (background, signal, <dr2_len position/size columns>, <n_fun_params model parameters>). *)
From TP Require Import Proofs.FitpackGen3.
Theorem C15_gen_jacobian_is_model :
  forall (X : Type) (r2_fun : list R -> list R -> R) (dr2_fun : list R -> list R -> list R)
         (model_fun : R -> list R -> R -> R) (model_dfun : R -> list R -> R -> R * list R)
         (fp : list String.string) (ndim : R) (dr2_len dfun_len : nat),
  (forall r e nd, fst (model_dfun r e nd) = model_fun r e nd) ->
  (forall r e nd, length (snd (model_dfun r e nd)) = dfun_len) ->
  (forall m p, length (dr2_fun m p) = dr2_len) ->
  dfun_len = (length fp + 1)%nat ->
  forall (images : list (image R X)) (meshes : list (X -> list R)) (masks : list (list (X -> bool)))
         (n : nat) (cols0 : list (list R)) (groups : groups_t) (norm : R) (modes : list nat) (v : list R),
  modes <> [] -> List.Forall item_ok (py_items images meshes masks n groups) ->
  length modes = length cols0 -> List.Forall (fun c => length c = n) cols0 ->
  length modes = (2 + dr2_len + length fp)%nat ->
  pres_opt (get_residual_jacobian R_ops r2_fun dr2_fun model_fun model_dfun fp ndim modes dr2_len dfun_len
                                  images meshes masks n cols0 groups norm v)
  = jacobian (py_clusters r2_fun dr2_fun model_fun model_dfun fp ndim images meshes masks n groups)
             groups n modes cols0 norm v.
Proof. exact @gen_jacobian_eq. Qed.
Print Assumptions C15_gen_jacobian_is_model.

(* C15_gradient_exact FOR THE GENERATED CLOSURES: the vector returned by the
   generated jacobian(v) is the gradient of the generated residual at v, along
   every direction and in every component -- hypotheses of C15_gradient_exact
   (read on the clusters cluster_of(zip(cl_groups, images, meshes, masks))) plus
   the shape hypotheses above; pres_val x = the value residual returns. *)
Theorem C15_gen_gradient_exact :
  forall (X : Type) (r2_fun : list R -> list R -> R) (dr2_fun : list R -> list R -> list R)
         (model_fun : R -> list R -> R -> R) (model_dfun : R -> list R -> R -> R * list R)
         (fp : list String.string) (ndim : R) (dr2_len dfun_len : nat),
  (forall r e nd, fst (model_dfun r e nd) = model_fun r e nd) ->
  (forall r e nd, length (snd (model_dfun r e nd)) = dfun_len) ->
  (forall m p, length (dr2_fun m p) = dr2_len) ->
  dfun_len = (length fp + 1)%nat ->
  forall (images : list (image R X)) (meshes : list (X -> list R)) (masks : list (list (X -> bool)))
         (n : nat) (cols0 : list (list R)) (groups : groups_t) (norm : R) (m0 : nat) (ms : list nat) (v : list R),
  List.Forall item_ok (py_items images meshes masks n groups) ->
  length (m0 :: ms) = length cols0 -> List.Forall (fun c => length c = n) cols0 ->
  List.Forall (mode_wf groups n) (m0 :: ms) -> length v = packed_len groups n (m0 :: ms) ->
  length images = length (cl_groups_of groups n) -> length meshes = length (cl_groups_of groups n) ->
  length masks = length (cl_groups_of groups n) ->
  partition n (cl_groups_of groups n) -> bg_mode_ok groups (cl_groups_of groups n) m0 ->
  length (m0 :: ms) = (2 + dr2_len + length fp)%nat ->
  (forall P rest, unpack groups n (m0 :: ms) v cols0 = Some (P, rest) ->
     forall c i x dp, In c (py_clusters r2_fun dr2_fun model_fun model_dfun fp ndim images meshes masks n groups) ->
     In i (cl_idx c) -> In x (cl_pix c) -> length dp = length (m0 :: ms) ->
     is_derive (fun t => cl_val c i x (line (row_of P i) dp t)) 0 (dot (cl_row c i x (row_of P i)) (tl dp))) ->
  exists g, get_residual_jacobian R_ops r2_fun dr2_fun model_fun model_dfun fp ndim (m0 :: ms) dr2_len dfun_len
                                  images meshes masks n cols0 groups norm v = POk g /\
            length g = length v /\
    (forall w, length w = length v ->
       is_derive (fun t => pres_val (get_residual_residual R_ops r2_fun dr2_fun model_fun model_dfun fp ndim (m0 :: ms) dr2_len dfun_len
                                                            images meshes masks n cols0 groups norm (line v w t))) 0 (dot g w)) /\
    (forall k, (k < length v)%nat ->
       is_derive (fun s => pres_val (get_residual_residual R_ops r2_fun dr2_fun model_fun model_dfun fp ndim (m0 :: ms) dr2_len dfun_len
                                                            images meshes masks n cols0 groups norm (upd v k s))) (nth k v 0) (nth k g 0)).
Proof. exact @gen_gradient_exact. Qed.
Print Assumptions C15_gen_gradient_exact.

(* the same generated closures, instantiated at Q (Model/FitpackCheck.v: Q_ops), are executable:
   one cluster of two overlapping features over three pixels, user-supplied r2 / model functions;
   the values are those FitFunctions.get_residual returns on the same data *)
From TP Require Import Model.FitpackCheck.
Example C15_gen_closures_execute : (toy_residual toy_vect, toy_jacobian toy_vect) = toy_expected.
Proof. vm_compute. reflexivity. Qed.
