(* C03 — all linking strategies, entry points and coordinate scalings agree. *)
From Coq Require Import ZArith QArith NArith List Permutation.
From TP Require Import Model.Assign Model.Link Model.LinkCheck Model.Strategies
     Proofs.Opt Proofs.Cands Proofs.Step Proofs.Monitor Proofs.Strategies.
Import ListNotations.

(* Any two labellings of the same step accepted by the (sound) monitor - this is what
   the check establishes for every strategy, entry point, the legacy linker and for
   permuted rows - are both optima and therefore have identical total cost. *)
Theorem C03_accepted_labellings_equal_cost : forall m mem max_size pred st ds labs1 labs2 st1 st2,
  metric_ok m -> NoDup (map s_lab (live st)) ->
  check_step m mem max_size pred st ds labs1 = (0%N, st1) ->
  check_step m mem max_size pred st ds labs2 = (0%N, st2) ->
  links_total (links_of_labels m pred st ds labs1) = links_total (links_of_labels m pred st ds labs2).
Proof. exact strategies_agree. Qed.
Print Assumptions C03_accepted_labellings_equal_cost.

(* Optimality is a property of the multiset of sources: listing them in another order
   (permuted rows) changes nothing. *)
Theorem C03_row_order_irrelevant : forall its its' l, Permutation its its' -> is_opt its l -> is_opt its' l.
Proof. exact permutation_invariant. Qed.
Print Assumptions C03_row_order_irrelevant.

(* 'drop' links only subnets made of one source whose single candidate destination
   belongs to no other source; every contested group stays unlinked. *)
Theorem C03_drop_only_uncontested : forall max_size gs links i j c,
  drop_links max_size gs = Ok links -> In (i, (Some j, c)) links ->
  exists cs, In [(i, cs)] gs /\ reals cs = [j].
Proof. exact drop_links_only_uncontested. Qed.
Print Assumptions C03_drop_only_uncontested.

(* A per-axis search_range (r_1..r_k) is the same as dividing coordinate i by r_i and
   using range 1: with weights w_i * r_i^2 = P, the weighted integer distance equals
   P times the squared distance of the rescaled points, so "in range" and every cost
   comparison coincide. *)
Theorem C03_rescale : forall (P : Z) w rs p q,
  (0 < P)%Z -> Forall2 (fun wi ri => (wi * (ri * ri))%Z = P /\ ri <> 0%Z) w rs ->
  ((d2w w p q <= P)%Z <-> (d2q rs p q <= 1)%Q).
Proof. exact rescale_in_range. Qed.
Print Assumptions C03_rescale.

Theorem C03_rescale_cost : forall (P : Z) (w rs : list Z) p q,
  Forall2 (fun wi ri => (wi * (ri * ri))%Z = P /\ ri <> 0%Z) w rs ->
  (inject_Z (d2w w p q) == inject_Z P * d2q rs p q)%Q.
Proof. exact d2w_rescale. Qed.
Print Assumptions C03_rescale_cost.

Example C03_rescale_example :
  Forall2 (fun wi ri => (wi * (ri * ri))%Z = 36%Z /\ ri <> 0%Z) [9; 4]%Z [2; 3]%Z.
Proof. repeat constructor; discriminate. Qed.
