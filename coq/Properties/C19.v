(* C19 — static structure measures match their geometric definitions.
   Only statements closed by [exact]; proofs live in Proofs/Static*.v.
   Models: Model/StaticCluster.v (Clusters.add / from_pairs / cluster_size,
   cluster_iter, proximity), Model/StaticPairCorr.v (pair_correlation_2d/3d
   over Q with the edge-correction measure [arc] as a parameter),
   Model/StaticGeom.v (the edge-correction formulas over R). *)
From Coq Require Import ZArith QArith List Permutation Reals.
From TP Require Import Model.StaticCluster Model.StaticPairCorr Model.StaticPairCorrSel Model.StaticGeom.
From TP Require Import Proofs.StaticCluster Proofs.StaticPairCorr Proofs.StaticPairCorrSel Proofs.StaticGeom.
Import ListNotations.

(* ================================================================== *)
(* cluster                                                            *)
(* ================================================================== *)

(* [connected adj a b]: b is reached from a by a chain of steps along adj
   (either direction).  Clusters.from_pairs, for ANY list of index pairs in any
   order and orientation: two features get the same id exactly when they are
   connected in the pair graph. *)
Theorem C19_cluster_same_id_iff_connected : forall (n : nat) (pairs : list (nat * nat)),
  (forall a b, In (a, b) pairs -> (a < n)%nat /\ (b < n)%nat) ->
  forall x y, (x < n)%nat -> (y < n)%nat ->
    (nth x (pos_ids (from_pairs pairs n)) 0%nat = nth y (pos_ids (from_pairs pairs n)) 0%nat
     <-> connected (fun u v => In (u, v) pairs) x y).
Proof. exact from_pairs_connected. Qed.
Print Assumptions C19_cluster_same_id_iff_connected.

(* With pairs = the set of features closer than separation (what query_pairs is
   taken to return: [is_near_pairs], any order, either orientation; weights w
   and R2 encode an isotropic or per-axis separation): same label iff linked by
   a chain of features each within separation of the next. *)
Theorem C19_cluster_labels_geometric : forall (w : list Z) (R2 : Z) (pts : list pt) (pairs : list (nat * nat)),
  ((forall i j, In (i, j) pairs -> near w R2 pts i j) /\
   (forall i j, near w R2 pts i j -> i <> j -> In (i, j) pairs \/ In (j, i) pairs)) ->
  forall x y, (x < length pts)%nat -> (y < length pts)%nat ->
    (nth x (pos_ids (from_pairs pairs (length pts))) 0%nat
     = nth y (pos_ids (from_pairs pairs (length pts))) 0%nat
     <-> connected (near w R2 pts) x y).
Proof. exact cluster_labels_geometric. Qed.
Print Assumptions C19_cluster_labels_geometric.

(* cluster_size reports, for every feature, the number of features of its
   connected component (comp enumerates the component without repetition). *)
Theorem C19_cluster_size_is_component_size : forall (w : list Z) (R2 : Z) (pts : list pt) (pairs : list (nat * nat)),
  is_near_pairs w R2 pts pairs ->
  forall f, (f < length pts)%nat ->
    exists comp, NoDup comp /\
      (forall g, In g comp <-> (g < length pts)%nat /\ connected (near w R2 pts) f g) /\
      nth f (cluster_size (from_pairs pairs (length pts))) None = Some (length comp).
Proof. exact cluster_sizes_geometric. Qed.
Print Assumptions C19_cluster_size_is_component_size.

(* cluster_iter (next_id = max + 1): no id appears in two different frames
   (frames are non-empty: groupby yields no empty group). *)
Theorem C19_cluster_ids_not_reused : forall (fs : list (nat * list (nat * nat))),
  Forall (fun f => (0 < fst f)%nat) fs ->
  forall next i j x, i <> j ->
    In x (fst (nth i (cluster_frames next fs) ([], []))) ->
    In x (fst (nth j (cluster_frames next fs) ([], []))) -> False.
Proof. exact cluster_ids_not_reused. Qed.
Print Assumptions C19_cluster_ids_not_reused.

(* The monitor run on trackpy.cluster's own output is sound: code 0 means the
   implementation's labels and sizes satisfy the geometric statement. *)
Theorem C19_cluster_monitor_sound : forall w R2 pts labels sizes,
  check_frame w R2 pts labels sizes = 0%N ->
  (forall x y, (x < length pts)%nat -> (y < length pts)%nat ->
     (nth x labels 0%nat = nth y labels 0%nat <-> connected (near w R2 pts) x y)) /\
  (forall f, (f < length pts)%nat ->
     exists comp, NoDup comp /\
       (forall g, In g comp <-> (g < length pts)%nat /\ connected (near w R2 pts) f g) /\
       nth_error sizes f = Some (length comp)).
Proof. exact check_frame_sound. Qed.
Print Assumptions C19_cluster_monitor_sound.

(* non-vacuity: a 4-feature frame, separation 2 (R2 = 4): 0-1-2 chain, 3 alone *)
Example C19_cluster_example :
  let pts := [[0; 0]; [2; 0]; [4; 0]; [9; 9]]%Z in
  is_near_pairs [1; 1]%Z 4%Z pts (all_pairs [1; 1]%Z 4%Z pts) /\
  all_pairs [1; 1]%Z 4%Z pts = [(0, 1); (1, 2)]%nat /\
  pos_ids (from_pairs (all_pairs [1; 1]%Z 4%Z pts) 4) = [0; 0; 0; 3]%nat /\
  cluster_size (from_pairs (all_pairs [1; 1]%Z 4%Z pts) 4) = [Some 3; Some 3; Some 3; Some 1]%nat /\
  map fst (cluster_frames 0 [(4, [(0, 1); (1, 2)]); (2, [])]%nat) = [[0; 0; 0; 3]; [4; 5]]%nat.
Proof. split; [apply all_pairs_near|]. repeat split; vm_compute; reflexivity. Qed.

(* ================================================================== *)
(* proximity                                                          *)
(* ================================================================== *)
(* tree.query(data, 2)[0][:, 1] (entry 1 of the ascending distances from p to
   all points, p included) is the distance from p to its nearest OTHER feature
   (squared, exact): attained by another feature and <= all others; absent
   (inf) iff there is no other feature.  Duplicates give 0. *)
Theorem C19_proximity_nearest_other : forall (pts : list pt) (i : nat) (p : pt),
  nth_error pts i = Some p ->
  let others := firstn i pts ++ skipn (S i) pts in
  exists r, nth_error (proximity2 pts) i = Some r /\
    match r with
    | None => others = []
    | Some m => (exists q, In q others /\ m = d2 p q) /\ forall q, In q others -> (m <= d2 p q)%Z
    end.
Proof. exact proximity_nearest_other. Qed.
Print Assumptions C19_proximity_nearest_other.

Example C19_proximity_example :
  proximity2 [[0; 0]; [3; 4]; [3; 5]; [3; 5]]%Z = [Some 25; Some 1; Some 0; Some 0]%Z /\
  proximity2 [[7; 7]]%Z = [None].
Proof. split; vm_compute; reflexivity. Qed.

(* ================================================================== *)
(* pair correlation                                                   *)
(* ================================================================== *)
Open Scope Q_scope.
(* g(r)[k] is the sum, over ALL ordered pairs (p, q) of particles with
   0 < |p-q| < cutoff and k dr <= |p-q| < (k+1) dr (compared squared), of
   1 / arc(|p-q|, wall distances of p), divided by ndensity * N * dr
   (NaN when one of those arcs is NaN).  [fold_left addw terms (0,0)] is
   (number of NaN terms, sum of the finite terms). *)
Theorem C19_gr_is_normalised_corrected_histogram :
  forall (arc : Q -> list Q -> option Q) (b : box) (feat : list qpt) (ndens : option Q) (cutoff dr : Q) (k : nat),
  0 < dr -> 0 <= cutoff -> (k < nbins cutoff dr)%nat ->
  let n := length feat in
  let rho := match ndens with Some r => r | None => ndens_default n b end in
  nth_error (gr_box arc b feat ndens cutoff dr) k
  = Some (finish (rho * inject_Z (Z.of_nat n) * dr)
      (fold_left addw
         (map (fun pq => option_map Qinv (arc (Qred (qd2 (fst pq) (snd pq))) (walls (fst pq) b)))
              (filter (fun pq => in_range (cutoff * cutoff) (fst pq) (snd pq)
                                 && (Qle_bool (edge2 dr k) (qd2 (fst pq) (snd pq))
                                     && Qltb (qd2 (fst pq) (snd pq)) (edge2 dr (S k))))
                      (list_prod feat feat)))
         (0%nat, 0))).
Proof. exact gr_box_spec. Qed.
Print Assumptions C19_gr_is_normalised_corrected_histogram.

(* g(r) does not depend on the order of the particles (default bounding box or
   given boundary, default or given density). *)
Theorem C19_gr_permutation :
  forall (arc : Q -> list Q -> option Q) (dim : nat) (boundary : option box) (pts pts' : list qpt)
         (ndens : option Q) (cutoff dr : Q),
  Permutation pts pts' ->
  pair_correlation arc dim boundary pts' ndens cutoff dr
  = pair_correlation arc dim boundary pts ndens cutoff dr.
Proof. exact pair_correlation_permutation. Qed.
Print Assumptions C19_gr_permutation.

(* g(r) is unchanged when particles and boundary are translated by t
   (the edge measure sees only distances and wall distances). *)
Theorem C19_gr_translation :
  forall (arc : Q -> list Q -> option Q) (dim : nat) (t : list Q) (b : box) (pts : list qpt)
         (ndens : option Q) (cutoff dr : Q),
  pair_correlation arc dim (Some (shift_box t b)) (map (shift t) pts) ndens cutoff dr
  = pair_correlation arc dim (Some b) pts ndens cutoff dr.
Proof. exact pair_correlation_translation. Qed.
Print Assumptions C19_gr_translation.

(* non-vacuity: three particles on a line in the box [0,4]x[0,4], arc = 1
   everywhere, bins of width 1 up to cutoff 3: bin [1,2) holds 4 ordered pairs,
   bin [2,3) holds 2; density (3-1)/16, N = 3:  g = 4 / (1/8 * 3 * 1) = 32/3 *)
Example C19_gr_example :
  pair_correlation (fun _ _ => Some 1) 2 (Some [(0, 4); (0, 4)]) [[0; 0]; [1; 0]; [2; 0]] None 3 1
  = [Some 0; Some (32 # 3); Some (16 # 3)] /\
  pair_correlation (fun _ _ => Some 1) 2 None [[0; 0]; [1; 0]; [2; 4]] None 3 1
  = pair_correlation (fun _ _ => Some 1) 2 (Some [(0, 2); (0, 4)]) [[0; 0]; [1; 0]; [2; 4]] None 3 1.
Proof. split; vm_compute; reflexivity. Qed.

(* ---- reference particles (p_indices; fraction < 1 draws them at random) ----
   Only pairs whose FIRST member is a reference particle are counted; the edge correction is
   evaluated at that reference particle (its own wall distances), and the histogram is divided
   by density * (number of reference particles) * dr. *)
Theorem C19_gr_sel_is_normalised_corrected_histogram :
  forall (arc : Q -> list Q -> option Q) (b : box) (refs feat : list qpt) (ndens : option Q) (cutoff dr : Q) (k : nat),
  0 < dr -> 0 <= cutoff -> (k < nbins cutoff dr)%nat ->
  let n := length feat in
  let rho := match ndens with Some r => r | None => ndens_default n b end in
  nth_error (gr_box_ref arc b refs feat ndens cutoff dr) k
  = Some (finish (rho * inject_Z (Z.of_nat (length refs)) * dr)
      (fold_left addw
         (map (fun pq => option_map Qinv (arc (Qred (qd2 (fst pq) (snd pq))) (walls (fst pq) b)))
              (filter (fun pq => in_range (cutoff * cutoff) (fst pq) (snd pq)
                                 && (Qle_bool (edge2 dr k) (qd2 (fst pq) (snd pq))
                                     && Qltb (qd2 (fst pq) (snd pq)) (edge2 dr (S k))))
                      (list_prod refs feat)))
         (0%nat, 0))).
Proof. exact gr_box_ref_spec. Qed.
Print Assumptions C19_gr_sel_is_normalised_corrected_histogram.

(* every particle a reference particle (p_indices = 0..n-1, the default): the plain g(r) *)
Theorem C19_gr_sel_all :
  forall (arc : Q -> list Q -> option Q) (dim : nat) (boundary : option box) (pts : list qpt) (ndens : option Q) (cutoff dr : Q),
  pair_correlation_sel arc dim boundary pts
      (seq 0 (length (match boundary with None => pts | Some b => filter (inside b) pts end))) ndens cutoff dr
  = pair_correlation arc dim boundary pts ndens cutoff dr.
Proof. exact pair_correlation_sel_all. Qed.
Print Assumptions C19_gr_sel_all.

(* unchanged when the particles are listed in another order and the reference particles (the same
   particles, wherever they now stand) are listed in another order *)
Theorem C19_gr_sel_permutation :
  forall (arc : Q -> list Q -> option Q) (b : box) (refs refs' feat feat' : list qpt) (ndens : option Q) (cutoff dr : Q),
  Permutation refs refs' -> Permutation feat feat' ->
  gr_box_ref arc b refs' feat' ndens cutoff dr = gr_box_ref arc b refs feat ndens cutoff dr.
Proof. exact gr_box_ref_permutation. Qed.
Print Assumptions C19_gr_sel_permutation.

Theorem C19_gr_sel_translation :
  forall (arc : Q -> list Q -> option Q) (dim : nat) (t : list Q) (b : box) (pts : list qpt) (idx : list nat)
         (ndens : option Q) (cutoff dr : Q),
  (forall i, In i idx -> (i < length (filter (inside b) pts))%nat) ->
  pair_correlation_sel arc dim (Some (shift_box t b)) (map (shift t) pts) idx ndens cutoff dr
  = pair_correlation_sel arc dim (Some b) pts idx ndens cutoff dr.
Proof. exact pair_correlation_sel_translation. Qed.
Print Assumptions C19_gr_sel_translation.

(* non-vacuity: the three particles of the example above with the LAST one as the only reference particle,
   and an arc that depends on the reference particle's distance to the left wall (1 + that distance):
   bin [1,2): pair (2,0)->(1,0), bin [2,3): pair (2,0)->(0,0); weights 1/3 each; density 1/8, one reference
   particle: g = (1/3) / (1/8) = 8/3.  Evaluated at the wrong particle (index 0, wall distance 0) the weights
   would be 1 and the bins 8. *)
Example C19_gr_sel_example :
  pair_correlation_sel (fun _ h => Some (1 + nth 0 h 0)) 2 (Some [(0, 4); (0, 4)]) [[0; 0]; [1; 0]; [2; 0]] [2%nat] None 3 1
  = [Some 0; Some (8 # 3); Some (8 # 3)].
Proof. vm_compute; reflexivity. Qed.

(* ================================================================== *)
(* edge-correction geometry (stdlib reals; classical axioms of R)      *)
(* ================================================================== *)
Open Scope R_scope.

(* One wall at distance h in direction theta = 0 excludes exactly the
   directions |theta| < acos(h/r); circle_cap_arclen is r times the width
   2 acos(h/r) of that interval. *)
Theorem C19_cap_excluded_interval : forall h r theta,
  0 <= h < r -> - PI < theta <= PI ->
  (h < r * cos theta <-> Rabs theta < acos (h / r)).
Proof. exact cap_excluded_interval. Qed.
Print Assumptions C19_cap_excluded_interval.

(* Two adjacent walls exclude, in the quadrant between them, exactly the
   directions asin(h2/r) < theta < acos(h1/r); circle_corner_arclen is r times
   the width of that interval (the part subtracted twice by the two caps). *)
Theorem C19_corner_excluded_interval : forall h1 h2 r theta,
  0 <= h1 < r -> 0 <= h2 < r -> 0 <= theta <= PI / 2 ->
  (h1 < r * cos theta /\ h2 < r * sin theta <-> asin (h2 / r) < theta < acos (h1 / r)).
Proof. exact corner_excluded_interval. Qed.

Theorem C19_corner_arclen_is_interval_length : forall h1 h2 r,
  0 <= h1 < r -> 0 <= h2 < r ->
  circle_corner_arclen h1 h2 r = r * (acos (h1 / r) - asin (h2 / r)).
Proof. exact corner_arclen_is_interval_length. Qed.

(* particle in a box corner: quarter circle; on a wall: half; interior: full *)
Theorem C19_arclen_2d_at_corner : forall r big,
  0 < r -> r <= big -> arclen_2d r 0 big 0 big = 2 * PI * r / 4.
Proof. exact arclen_2d_at_corner. Qed.
Theorem C19_arclen_2d_on_wall : forall r big,
  0 < r -> r <= big -> arclen_2d r 0 big big big = 2 * PI * r / 2.
Proof. exact arclen_2d_on_wall. Qed.

(* 3-D consistency identities (NOT a derivation of the spherical areas) *)
Theorem C19_sphere_edge_is_two_corners : forall x y r,
  sphere_edge_area x y r = 2 * sphere_corner_area x y 0 r.
Proof. exact sphere_edge_is_two_corners. Qed.
Theorem C19_sphere_edge_y0_is_half_cap : forall x r,
  sphere_edge_area x 0 r = sphere_cap_area x r / 2.
Proof. exact sphere_edge_y0. Qed.
Theorem C19_sphere_corner_000_is_octant : forall r,
  sphere_corner_area 0 0 0 r = 4 * PI * (r * r) / 8.
Proof. exact sphere_corner_000. Qed.
Print Assumptions C19_sphere_edge_is_two_corners.

(* ================================================================== *)
(* 2-D edge correction: arclen_2d_bounded IS the length of the part of  *)
(* the circle inside the box  (Model/StaticGeom2.v, Proofs/StaticGeom2.v) *)
(* ================================================================== *)
From Coquelicot Require Import Coquelicot.
From TP Require Import Model.StaticGeom2 Proofs.StaticGeom2.

(* Validity range: EVERY r > 0 and EVERY centre in the closed box (wall
   distances hl, hr, hb, ht >= 0).  No upper bound on r is needed: each wall
   cuts off an open arc of half-width cut_halfwidth h r <= PI/2 around its own
   direction, so arcs of opposite walls never meet, triple overlaps are empty,
   and inclusion-exclusion over four caps and four adjacent corners is exact.

   Measure of a set of directions, constructively: P has measure m
   ([has_arc_measure P m]) when there is a list l of closed intervals, sorted
   inside [-PI, PI] and overlapping at most in end points, such that for theta
   in (-PI, PI]:  P theta <-> theta lies in an interval of l, and m is the sum
   of the interval lengths.  m is unique and is the Riemann integral of the
   indicator of P (two theorems below). *)

(* The directions that stay inside the box are exactly the four explicit
   quadrant intervals [gaps] between the arcs cut off by adjacent walls ... *)
Theorem C19_arclen_2d_inside_directions : forall r hl hr hb ht theta,
  0 < r -> 0 <= hl -> 0 <= hr -> 0 <= hb -> 0 <= ht -> - PI < theta <= PI ->
  (- hl <= r * cos theta <= hr /\ - hb <= r * sin theta <= ht
   <-> in_arcs [ (- PI + cut_halfwidth hl r, - (PI / 2) - cut_halfwidth hb r);
                 (- (PI / 2) + cut_halfwidth hb r, - cut_halfwidth hr r);
                 (cut_halfwidth hr r, PI / 2 - cut_halfwidth ht r);
                 (PI / 2 + cut_halfwidth ht r, PI - cut_halfwidth hl r) ] theta).
Proof. exact dir_inside_iff_gaps. Qed.
Print Assumptions C19_arclen_2d_inside_directions.

(* ... these intervals are sorted inside [-PI, PI] ... *)
Theorem C19_arclen_2d_gaps_sorted : forall r hl hr hb ht,
  0 <= hl -> 0 <= hr -> 0 <= hb -> 0 <= ht -> arcs_sorted (- PI) (gaps r hl hr hb ht) PI.
Proof. exact gaps_sorted. Qed.

(* ... and the code's expression (2 PI r - four caps + four corners, with the
   code's masks h < r and h1^2 + h2^2 < r^2) is r times their total length. *)
Theorem C19_arclen_2d_is_gap_length : forall r hl hr hb ht,
  0 < r -> 0 <= hl -> 0 <= hr -> 0 <= hb -> 0 <= ht ->
  arclen_2d r hl hr hb ht = r * arcs_length (gaps r hl hr hb ht).
Proof. exact arclen_2d_is_gap_length. Qed.
Print Assumptions C19_arclen_2d_is_gap_length.

(* The corner term is present exactly when the two cut-off arcs overlap. *)
Theorem C19_corner_inside_iff_arcs_overlap : forall h1 h2 r,
  0 <= h1 < r -> 0 <= h2 < r ->
  (h1 * h1 + h2 * h2 < r * r <-> PI / 2 < acos (h1 / r) + acos (h2 / r)).
Proof. exact corner_inside_iff. Qed.

(* MAIN (box form).  arclen_2d_bounded r cx cy x0 x1 y0 y1 is one row of
   trackpy.static.arclen_2d_bounded(dist, pos, box) with dist = r, pos = (cx, cy),
   box = [[x0, x1], [y0, y1]] (before the NaN mask for vanishing arcs).
   For every centre in the closed box and every r > 0 it equals r times the
   angular measure of { theta in (-PI, PI] | centre + r (cos theta, sin theta) in box }. *)
Theorem C19_arclen_2d_bounded_is_measure : forall r cx cy x0 x1 y0 y1,
  0 < r -> (x0 <= cx <= x1 /\ y0 <= cy <= y1) ->
  exists m,
    has_arc_measure (fun theta => x0 <= cx + r * cos theta <= x1 /\ y0 <= cy + r * sin theta <= y1) m /\
    arclen_2d r (cx - x0) (x1 - cx) (cy - y0) (y1 - cy) = r * m.
Proof. exact arclen_2d_bounded_is_measure. Qed.
Print Assumptions C19_arclen_2d_bounded_is_measure.

(* The same as a Riemann integral (Coquelicot is_RInt): the integral over
   (-PI, PI) of the arc-length element r dtheta restricted to the directions
   inside the box (box_indicator = 1 inside the closed box, 0 outside). *)
Theorem C19_arclen_2d_bounded_is_integral : forall r cx cy x0 x1 y0 y1,
  0 < r -> (x0 <= cx <= x1 /\ y0 <= cy <= y1) ->
  is_RInt (fun theta => r * box_indicator x0 x1 y0 y1 (cx + r * cos theta) (cy + r * sin theta))
          (- PI) PI
          (arclen_2d r (cx - x0) (x1 - cx) (cy - y0) (y1 - cy)).
Proof. exact arclen_2d_bounded_is_integral. Qed.
Print Assumptions C19_arclen_2d_bounded_is_integral.

Theorem C19_box_indicator_spec : forall x0 x1 y0 y1 px py,
  ((x0 <= px <= x1 /\ y0 <= py <= y1) -> box_indicator x0 x1 y0 y1 px py = 1) /\
  (~ (x0 <= px <= x1 /\ y0 <= py <= y1) -> box_indicator x0 x1 y0 y1 px py = 0).
Proof. exact box_indicator_spec. Qed.

(* The measure is well defined: it does not depend on the interval list used to
   describe the set, and it is the integral of any 0/1 indicator of the set. *)
Theorem C19_arc_measure_unique : forall (P : R -> Prop) m m',
  has_arc_measure P m -> has_arc_measure P m' -> m = m'.
Proof. exact arc_measure_unique. Qed.
Theorem C19_arc_measure_is_integral : forall (P : R -> Prop) m (f : R -> R),
  has_arc_measure P m ->
  (forall x, - PI < x < PI -> (P x -> f x = 1) /\ (~ P x -> f x = 0)) ->
  is_RInt f (- PI) PI m.
Proof. exact arc_measure_is_integral. Qed.
Print Assumptions C19_arc_measure_unique.

(* non-vacuity / instances: no wall within reach -> the full circle; centre in a
   box corner -> the inside directions have measure PI/2 (a quarter circle). *)
Theorem C19_arclen_2d_no_wall : forall r hl hr hb ht,
  0 < r -> r <= hl -> r <= hr -> r <= hb -> r <= ht -> arclen_2d r hl hr hb ht = 2 * PI * r.
Proof. exact arclen_2d_no_wall. Qed.
Example C19_arclen_2d_corner_measure : forall r big,
  0 < r -> r <= big ->
  has_arc_measure (fun theta => 0 <= 0 + r * cos theta <= big /\ 0 <= 0 + r * sin theta <= big) (PI / 2).
Proof. exact corner_quarter_measure. Qed.

(* ================================================================== *)
(* ROUTE T: the edge-correction code as it is NOW                      *)
(* (Gen/static_geom.v, Model/StaticGeom3.v, Proofs/StaticGen.v,        *)
(*  Proofs/StaticGeom3.v)                                              *)
(* ================================================================== *)
(* Gen/static_geom.v is regenerated by tools/py2coq_static.py from the current
   text of trackpy/static.py on every run of the check: py_<f> is the Python
   function f read for ONE point (one row of dist / pos), over R; a boolean-mask
   update  acc[mask] -= v  subtracts  py_masked c v = (if c then v else 0)  with c
   the decidable comparison (Rlt_dec) of the mask; the final
   arr[arr < eps] = nan  makes the result an option (None = NaN).  The theorems
   above are about hand-written models; the theorems below tie the generated
   functions to them for ALL real arguments, and restate the headline theorem
   about the generated function.  A changed formula, mask, loop list or
   threshold changes the generated text and breaks these proofs. *)
From TP Require Import Model.StaticGeom3 Gen.static_geom Proofs.StaticGen Proofs.StaticGeom3.

(* nan_below thr v = if v < thr then None else Some v *)
Theorem C19_nan_below_spec : forall thr v,
  (v < thr -> nan_below thr v = None) /\ (thr <= v -> nan_below thr v = Some v).
Proof. exact nan_below_spec. Qed.

(* the five closed formulas *)
Theorem C19_generated_formulas_are_model :
  (forall h r, py_circle_cap_arclen h r = circle_cap_arclen h r) /\
  (forall h1 h2 r, py_circle_corner_arclen h1 h2 r = circle_corner_arclen h1 h2 r) /\
  (forall h r, py_sphere_cap_area h r = sphere_cap_area h r) /\
  (forall x y r, py_sphere_edge_area x y r = sphere_edge_area x y r) /\
  (forall x y z r, py_sphere_corner_area x y z r = sphere_corner_area x y z r).
Proof. exact gen_formulas_are_model. Qed.
Print Assumptions C19_generated_formulas_are_model.

(* arclen_2d_bounded(dist, pos, box) for one row: dist = r, pos = (cx, cy),
   box = [[x0, x1], [y0, y1]]: the model's inclusion-exclusion value, NaN-ed out
   below 10^-5 r.  No hypothesis. *)
Theorem C19_generated_arclen_2d_bounded_is_model : forall r cx cy x0 x1 y0 y1,
  py_arclen_2d_bounded r cx cy x0 x1 y0 y1
  = nan_below (/ (10 ^ 5) * r) (arclen_2d r (cx - x0) (x1 - cx) (cy - y0) (y1 - cy)).
Proof. exact gen_arclen_2d_bounded_is_model. Qed.
Print Assumptions C19_generated_arclen_2d_bounded_is_model.

(* area_3d_bounded for one row: area_3d (Model/StaticGeom3.v) = 4 PI r^2 - six
   masked caps + twelve masked edges - eight masked corners over the wall
   distances [x-, x+, y-, y+, z-, z+], NaN-ed out below 10^-7 r^2. *)
Theorem C19_generated_area_3d_bounded_is_model : forall r cx cy cz x0 x1 y0 y1 z0 z1,
  py_area_3d_bounded r cx cy cz x0 x1 y0 y1 z0 z1
  = nan_below (/ (10 ^ 7) * r ^ 2)
              (area_3d r (cx - x0) (x1 - cx) (cy - y0) (y1 - cy) (cz - z0) (z1 - cz)).
Proof. exact gen_area_3d_bounded_is_model. Qed.
Print Assumptions C19_generated_area_3d_bounded_is_model.

(* HEADLINE, about the code as it is now.  For every r > 0 and every centre in
   the closed box, with m the angular measure of the directions theta in
   (-PI, PI] whose point centre + r (cos theta, sin theta) lies in the box
   (m exists, and is unique by C19_arc_measure_unique):
   the generated arclen_2d_bounded returns r * m, the length of the part of the
   circle inside the box, unless m < 10^-5, where it returns NaN. *)
Theorem C19_generated_arclen_2d_bounded_is_measure : forall r cx cy x0 x1 y0 y1,
  0 < r -> (x0 <= cx <= x1 /\ y0 <= cy <= y1) ->
  exists m,
    has_arc_measure (fun theta => x0 <= cx + r * cos theta <= x1 /\ y0 <= cy + r * sin theta <= y1) m /\
    (m < / (10 ^ 5) -> py_arclen_2d_bounded r cx cy x0 x1 y0 y1 = None) /\
    (/ (10 ^ 5) <= m -> py_arclen_2d_bounded r cx cy x0 x1 y0 y1 = Some (r * m)).
Proof. exact gen_arclen_2d_bounded_is_measure. Qed.
Print Assumptions C19_generated_arclen_2d_bounded_is_measure.

(* whenever the generated function returns a number, that number is the
   Riemann integral of r dtheta over the directions inside the box *)
Theorem C19_generated_arclen_2d_bounded_is_integral : forall r cx cy x0 x1 y0 y1 v,
  0 < r -> (x0 <= cx <= x1 /\ y0 <= cy <= y1) ->
  py_arclen_2d_bounded r cx cy x0 x1 y0 y1 = Some v ->
  is_RInt (fun theta => r * box_indicator x0 x1 y0 y1 (cx + r * cos theta) (cy + r * sin theta)) (- PI) PI v.
Proof. exact gen_arclen_2d_bounded_is_integral. Qed.
Print Assumptions C19_generated_arclen_2d_bounded_is_integral.

(* the 3-D consistency identities, about the generated formulas *)
Theorem C19_generated_sphere_identities :
  (forall x y r, py_sphere_edge_area x y r = 2 * py_sphere_corner_area x y 0 r) /\
  (forall x r, py_sphere_edge_area x 0 r = py_sphere_cap_area x r / 2) /\
  (forall r, py_sphere_corner_area 0 0 0 r = 4 * PI * (r * r) / 8).
Proof. exact gen_sphere_identities. Qed.

(* ================================================================== *)
(* 3-D edge correction = area of the sphere inside the box, when only    *)
(* faces perpendicular to one axis are within reach  (PARTIAL)           *)
(* ================================================================== *)
(* Area on the sphere of radius r, measured about a coordinate axis ax
   (Model/StaticGeom3.v): sphere_pt ax r phi t is the point at height t along
   the axis and azimuth phi around it (it lies on the sphere:
   C19_sphere_pt_on_sphere); [has_axial_area ax r S a]: for every -r < t < r the
   slice { phi | sphere_pt ax r phi t in S } has angular measure m t
   (has_arc_measure, as in 2-D) and a is the Riemann integral of r * m t over
   [-r, r]  (Archimedes: the area element in the coordinates (phi, t) is
   r dphi dt).  a is unique (C19_axial_area_unique); the whole sphere has
   4 PI r^2 about every axis (C19_whole_sphere_area).

   THEOREM.  r > 0, centre in the closed box, and the four faces PARALLEL to
   the axis ax are at distance >= r ([across] lists their distances): then
   area_3d_bounded -- the generated function, with its NaN mask below
   10^-7 r^2 -- is the area, about ax, of the part of the sphere inside the box.
   The two faces perpendicular to ax are unconstrained: no cap, one cap ("the
   sphere crosses at most one face") or two opposite caps.

   PARTIAL because (i) edges and corners (two or three mutually adjacent faces
   within reach: sphere_edge_area, sphere_corner_area) are not derived HERE
   [they are further down: C19_area_3d_bounded_is_area covers every regime];
   (ii) the area is the one measured about the axis of
   the crossed faces: r dphi dt IS the Euclidean surface element of that
   parametrisation (C19_axial_area_element below), but that the resulting
   surface integral does not depend on the parametrisation / axis (rotation
   invariance of area) is a classical fact not proved here. *)
Theorem C19_area_3d_single_cap_partial : forall ax r cx cy cz x0 x1 y0 y1 z0 z1,
  0 < r -> (x0 <= cx <= x1 /\ y0 <= cy <= y1 /\ z0 <= cz <= z1) ->
  List.Forall (fun h => r <= h) (across ax (cx - x0) (x1 - cx) (cy - y0) (y1 - cy) (cz - z0) (z1 - cz)) ->
  exists a,
    has_axial_area ax r
      (fun p => x0 <= cx + fst (fst p) <= x1 /\ y0 <= cy + snd (fst p) <= y1 /\ z0 <= cz + snd p <= z1) a /\
    py_area_3d_bounded r cx cy cz x0 x1 y0 y1 z0 z1 = nan_below (/ (10 ^ 7) * r ^ 2) a.
Proof. exact gen_area_3d_bounded_one_axis. Qed.
Print Assumptions C19_area_3d_single_cap_partial.

(* the value in that regime: 2 PI r (min lo r + min hi r), lo / hi the distances
   of the two faces perpendicular to the axis (hat-box: zone of height lo' + hi') *)
Theorem C19_area_3d_one_axis_value : forall ax r xm xp ym yp zm zp,
  0 < r -> List.Forall (fun h => r <= h) (across ax xm xp ym yp zm zp) ->
  area_3d r xm xp ym yp zm zp
  = 2 * PI * r * (Rmin (fst (along ax xm xp ym yp zm zp)) r + Rmin (snd (along ax xm xp ym yp zm zp)) r).
Proof. exact area_3d_one_axis. Qed.

Theorem C19_sphere_pt_on_sphere : forall ax r phi t,
  - r <= t <= r ->
  let p := sphere_pt ax r phi t in
  fst (fst p) * fst (fst p) + snd (fst p) * snd (fst p) + snd p * snd p = r * r.
Proof. exact sphere_pt_on_sphere. Qed.

Theorem C19_axial_area_unique : forall ax r (S : R * R * R -> Prop) a a',
  0 < r -> has_axial_area ax r S a -> has_axial_area ax r S a' -> a = a'.
Proof. exact axial_area_unique. Qed.
Print Assumptions C19_axial_area_unique.

Theorem C19_whole_sphere_area : forall ax r, 0 < r -> has_axial_area ax r (fun _ => True) (4 * PI * (r * r)).
Proof. exact whole_sphere_area. Qed.

(* non-vacuity / instances: no face within reach -> 4 PI r^2; centre on one
   face, the others far -> the half sphere; the across-hypothesis is satisfiable
   with a cap present (r = 2, the z+ face at distance 1). *)
Theorem C19_area_3d_no_wall : forall r xm xp ym yp zm zp,
  0 < r -> r <= xm -> r <= xp -> r <= ym -> r <= yp -> r <= zm -> r <= zp ->
  area_3d r xm xp ym yp zm zp = 4 * PI * (r * r).
Proof. exact area_3d_no_wall. Qed.
Theorem C19_area_3d_on_face : forall r big,
  0 < r -> r <= big -> area_3d r big big big big 0 big = 2 * PI * (r * r).
Proof. exact area_3d_on_face. Qed.
Example C19_area_3d_single_cap_example :
  List.Forall (fun h => 2 <= h) (across AZ (5 - 0) (10 - 5) (5 - 0) (10 - 5) (5 - 0) (6 - 5)) /\
  area_3d 2 5 5 5 5 5 1 = 2 * PI * 2 * (2 + 1).
Proof. exact area_3d_single_cap_example. Qed.

(* The area element behind has_axial_area: for -r < t < r the partial derivatives
   dphi, dt of (phi, t) |-> sphere_pt ax r phi t exist (componentwise, X3 / Y3 /
   Z3 = the three coordinates) and |dphi x dt|^2 = r^2, i.e. the Euclidean
   surface element of the parametrisation is r dphi dt. *)
Theorem C19_axial_area_element : forall ax r phi t,
  0 < r -> - r < t < r ->
  exists dphi dt : R * R * R,
    (is_derive (fun s => X3 (sphere_pt ax r s t)) phi (X3 dphi) /\
     is_derive (fun s => Y3 (sphere_pt ax r s t)) phi (Y3 dphi) /\
     is_derive (fun s => Z3 (sphere_pt ax r s t)) phi (Z3 dphi)) /\
    (is_derive (fun s => X3 (sphere_pt ax r phi s)) t (X3 dt) /\
     is_derive (fun s => Y3 (sphere_pt ax r phi s)) t (Y3 dt) /\
     is_derive (fun s => Z3 (sphere_pt ax r phi s)) t (Z3 dt)) /\
    norm2 (cross3 dphi dt) = r * r.
Proof. exact axial_area_element. Qed.
Print Assumptions C19_axial_area_element.

(* ================================================================== *)
(* 3-D edge correction, the faces within reach all PARALLEL to one axis *)
(* (two adjacent faces without / with overlapping caps, and more)       *)
(* Model/StaticGeom4.v, Proofs/StaticLune.v, Proofs/StaticGeom4.v       *)
(* ================================================================== *)
From TP Require Import Model.StaticGeom4 Proofs.StaticLune Proofs.StaticGeom4.

(* THEOREM.  r > 0, centre in the closed box, and the two faces PERPENDICULAR
   to the axis ax at distance >= r ([along ax] = their two distances).  The four
   faces parallel to ax are unconstrained: none, one, two opposite, two ADJACENT
   faces whose caps do not overlap (sphere minus two caps), two adjacent faces
   whose caps overlap (the edge term sphere_edge_area enters), three or all
   four faces around a column (up to four caps and four edge terms).  Then
   area_3d_bounded -- the generated function, with its NaN mask below
   10^-7 r^2 -- is the area, about ax (the direction of the box edges
   concerned), of the part of the sphere inside the box.

   Proof idea: the slice of the sphere at height t along ax is a circle of
   radius rho = sqrt(r^2 - t^2) cut by four walls, i.e. the 2-D problem, whose
   measure is arclen_2d rho ... / rho by C19_arclen_2d_bounded_is_measure; the
   integral over t of r times that measure is evaluated term by term:
   r INT 2 acos(h/rho) dt = 2 PI r (r - h) and
   r INT (acos(h2/rho) - asin(h1/rho)) dt = sphere_edge_area h1 h2 r
   (explicit antiderivative, fundamental theorem of calculus with the derivative
   in the open interval, arctangent addition formulas; all degenerate positions
   -- centre on a face or on an edge -- included).

   PARTIAL only in that (i) the corner regime (three mutually adjacent faces
   within reach, sphere_corner_area) is not covered by THIS theorem [it is
   covered by C19_area_3d_bounded_is_area further down]; (ii) as for C19_area_3d_single_cap_partial, the
   area is the one measured about ax (r dphi dt is the Euclidean surface
   element, C19_axial_area_element); independence of the axis is not proved. *)
Theorem C19_area_3d_edges_partial : forall ax r cx cy cz x0 x1 y0 y1 z0 z1,
  0 < r -> (x0 <= cx <= x1 /\ y0 <= cy <= y1 /\ z0 <= cz <= z1) ->
  List.Forall (fun h => r <= h)
    [fst (along ax (cx - x0) (x1 - cx) (cy - y0) (y1 - cy) (cz - z0) (z1 - cz));
     snd (along ax (cx - x0) (x1 - cx) (cy - y0) (y1 - cy) (cz - z0) (z1 - cz))] ->
  exists a,
    has_axial_area ax r
      (fun p => x0 <= cx + fst (fst p) <= x1 /\ y0 <= cy + snd (fst p) <= y1 /\ z0 <= cz + snd p <= z1) a /\
    py_area_3d_bounded r cx cy cz x0 x1 y0 y1 z0 z1 = nan_below (/ (10 ^ 7) * r ^ 2) a.
Proof. exact gen_area_3d_bounded_lateral. Qed.
Print Assumptions C19_area_3d_edges_partial.

(* (1) two adjacent faces (here x+ at distance dx, y+ at distance dy; the four
   others out of reach) whose caps do not overlap, sqrt(dx^2 + dy^2) >= r:
   the value is the sphere minus two caps ... *)
Theorem C19_area_3d_two_adjacent_no_overlap : forall r xm dx ym dy zm zp,
  0 < r -> 0 <= dx < r -> 0 <= dy < r -> r * r <= dx * dx + dy * dy ->
  r <= xm -> r <= ym -> r <= zm -> r <= zp ->
  area_3d r xm dx ym dy zm zp = 4 * PI * (r * r) - sphere_cap_area dx r - sphere_cap_area dy r.
Proof. exact area_3d_two_adjacent_no_overlap. Qed.

(* (2) ... and when they overlap, dx^2 + dy^2 < r^2, inclusion-exclusion with the
   edge term; by C19_area_3d_edges_partial (ax = AZ) both are the true area. *)
Theorem C19_area_3d_two_adjacent_overlap : forall r xm dx ym dy zm zp,
  0 < r -> 0 <= dx -> 0 <= dy -> dx * dx + dy * dy < r * r ->
  r <= xm -> r <= ym -> r <= zm -> r <= zp ->
  area_3d r xm dx ym dy zm zp
  = 4 * PI * (r * r) - sphere_cap_area dx r - sphere_cap_area dy r + sphere_edge_area dx dy r.
Proof. exact area_3d_two_adjacent_overlap. Qed.

(* The edge term itself: sphere_edge_area dx dy r IS the area, about the
   direction of the box edge (AZ), of the lune { p on the sphere | dx <= p_x and
   dy <= p_y } cut off by both half-spaces, for every 0 <= dx, 0 <= dy with
   dx^2 + dy^2 < r^2 (faces through the centre included) ... *)
Theorem C19_sphere_edge_area_is_lune : forall dx dy r,
  0 < r -> 0 <= dx -> 0 <= dy -> dx * dx + dy * dy < r * r ->
  has_axial_area AZ r (fun p => dx <= fst (fst p) /\ dy <= snd (fst p)) (sphere_edge_area dx dy r).
Proof. exact edge_area_is_lune. Qed.
Print Assumptions C19_sphere_edge_area_is_lune.

(* ... and sphere_cap_area dx r is the area of the cap { dx <= p_x } measured about
   the SAME axis (parallel to the face), so that
   sphere - cap_x - cap_y + lune_xy is inclusion-exclusion of areas about one axis. *)
Theorem C19_sphere_cap_area_about_edge : forall dx r,
  0 < r -> 0 <= dx < r ->
  has_axial_area AZ r (fun p => dx <= fst (fst p)) (sphere_cap_area dx r).
Proof. exact cap_area_about_edge. Qed.

(* as integrals: rho r t = sqrt(r^2 - t^2); cap_term / corner_term are the 2-D
   cap / corner arc lengths with the code's masks; scap_term / sedge_term the
   3-D cap / edge areas with the code's masks.  For all h, h1, h2 >= 0. *)
Theorem C19_cap_and_edge_integrals : forall r,
  0 < r ->
  (forall h, 0 <= h ->
     is_RInt (fun t => r * (cap_term h (rho r t) / rho r t)) (- r) r (scap_term h r)) /\
  (forall h1 h2, 0 <= h1 -> 0 <= h2 ->
     is_RInt (fun t => r * (corner_term h1 h2 (rho r t) / rho r t)) (- r) r (sedge_term h1 h2 r)).
Proof. intros r Hr. split; [intros; apply cap_piece|intros; apply corner_piece]; assumption. Qed.
Print Assumptions C19_cap_and_edge_integrals.

(* EVERY regime (corners included), PARTIAL: the area about ax of the part of
   the sphere inside the box is the integral over the height t of r times
   slice_measure_ax = (inside the slab of the two faces perpendicular to ax) the
   2-D edge correction arclen_2d of the slice circle divided by its radius.
   The closed-form evaluation of this integral when the slab truncates it (-lo
   or hi inside (-r, r)) and its identification with the code's
   4 PI r^2 - caps + edges - corners (sphere_corner_area) are
   C19_slice_integral_closed_form / C19_area_3d_bounded_is_area further down. *)
Theorem C19_area_3d_slice_integral_partial : forall ax r cx cy cz x0 x1 y0 y1 z0 z1 a,
  0 < r -> (x0 <= cx <= x1 /\ y0 <= cy <= y1 /\ z0 <= cz <= z1) ->
  (has_axial_area ax r
     (fun p => x0 <= cx + fst (fst p) <= x1 /\ y0 <= cy + snd (fst p) <= y1 /\ z0 <= cz + snd p <= z1) a
   <-> is_RInt (fun t => r * slice_measure_ax ax r (cx - x0) (x1 - cx) (cy - y0) (y1 - cy) (cz - z0) (z1 - cz) t)
               (- r) r a).
Proof. exact axial_area_iff_slice_integral. Qed.
Print Assumptions C19_area_3d_slice_integral_partial.

(* non-vacuity: box [0,10]^3, r = 2.  Centre (17/2, 17/2, 5): faces x+ and y+ at
   distance 3/2, caps disjoint (9/4 + 9/4 >= 4); centre (9, 9, 5): both at
   distance 1, caps overlap (1 + 1 < 4).  In both the hypotheses of
   C19_area_3d_edges_partial hold with ax = AZ. *)
Example C19_area_3d_two_adjacent_examples :
  ((0 <= 17 / 2 <= 10 /\ 0 <= 17 / 2 <= 10 /\ 0 <= 5 <= 10) /\
   2 <= fst (along AZ (17 / 2 - 0) (10 - 17 / 2) (17 / 2 - 0) (10 - 17 / 2) (5 - 0) (10 - 5)) /\
   2 <= snd (along AZ (17 / 2 - 0) (10 - 17 / 2) (17 / 2 - 0) (10 - 17 / 2) (5 - 0) (10 - 5)) /\
   area_3d_bounded 2 (17 / 2) (17 / 2) 5 0 10 0 10 0 10 = 4 * PI * (2 * 2) - 2 * (2 * PI * 2 * (2 - 3 / 2))) /\
  ((0 <= 9 <= 10 /\ 0 <= 9 <= 10 /\ 0 <= 5 <= 10) /\
   2 <= fst (along AZ (9 - 0) (10 - 9) (9 - 0) (10 - 9) (5 - 0) (10 - 5)) /\
   2 <= snd (along AZ (9 - 0) (10 - 9) (9 - 0) (10 - 9) (5 - 0) (10 - 5)) /\
   area_3d_bounded 2 9 9 5 0 10 0 10 0 10
   = 4 * PI * (2 * 2) - 2 * (2 * PI * 2 * (2 - 1)) + sphere_edge_area 1 1 2).
Proof. exact area_3d_two_adjacent_examples. Qed.

(* ------------------------------------------------------------------ *)
(* Faces of ALL THREE axes within reach, as long as every edge term that *)
(* is switched on belongs to a box edge parallel to one axis ax          *)
(* ------------------------------------------------------------------ *)
(* [edges_parallel_only ax r xm xp ym yp zm zp] (Model/StaticGeom4.v): for each
   of the two faces perpendicular to ax (distance f) and each of the four faces
   parallel to ax (distance g):  r^2 <= f^2 + g^2  (no_cross: their caps do not
   overlap, the code's edge mask f^2 + g^2 < r^2 is off; automatically true when
   f >= r or g >= r).  This contains the two regimes above (single axis; faces
   parallel to one axis) and adds, e.g., three mutually adjacent faces within
   reach with pairwise disjoint caps, or with only one pair overlapping: then
   area_3d_bounded = 4 PI r^2 - up to six caps + up to four edge terms is the
   area about ax of the part of the sphere inside the box.
   Edge terms of two different directions switched on together and the corner
   term (sphere_corner_area) are not covered by this theorem; they are by
   C19_area_3d_bounded_is_area further down. *)
Theorem C19_area_3d_parallel_edges_partial : forall ax r cx cy cz x0 x1 y0 y1 z0 z1,
  0 < r -> (x0 <= cx <= x1 /\ y0 <= cy <= y1 /\ z0 <= cz <= z1) ->
  edges_parallel_only ax r (cx - x0) (x1 - cx) (cy - y0) (y1 - cy) (cz - z0) (z1 - cz) ->
  exists a,
    has_axial_area ax r
      (fun p => x0 <= cx + fst (fst p) <= x1 /\ y0 <= cy + snd (fst p) <= y1 /\ z0 <= cz + snd p <= z1) a /\
    py_area_3d_bounded r cx cy cz x0 x1 y0 y1 z0 z1 = nan_below (/ (10 ^ 7) * r ^ 2) a.
Proof. exact gen_area_3d_bounded_parallel_edges. Qed.
Print Assumptions C19_area_3d_parallel_edges_partial.

(* written out for ax = AZ *)
Theorem C19_edges_parallel_only_AZ : forall r xm xp ym yp zm zp,
  edges_parallel_only AZ r xm xp ym yp zm zp <->
  ((r * r <= zm * zm + xm * xm /\ r * r <= zm * zm + xp * xp /\ r * r <= zm * zm + ym * ym /\ r * r <= zm * zm + yp * yp) /\
   (r * r <= zp * zp + xm * xm /\ r * r <= zp * zp + xp * xp /\ r * r <= zp * zp + ym * ym /\ r * r <= zp * zp + yp * yp)).
Proof. intros. reflexivity. Qed.

(* non-vacuity: box [0,10]^3, r = 2, centre (9, 9, 41/5): faces x+ and y+ at
   distance 1 (caps overlap, the edge parallel to z is on) and face z+ at distance
   9/5 < r, whose cap meets neither (81/25 + 1 >= 4): three mutually adjacent
   faces within reach. *)
Example C19_area_3d_parallel_edges_example :
  (0 <= 9 <= 10 /\ 0 <= 9 <= 10 /\ 0 <= 41 / 5 <= 10) /\
  edges_parallel_only AZ 2 (9 - 0) (10 - 9) (9 - 0) (10 - 9) (41 / 5 - 0) (10 - 41 / 5) /\
  10 - 41 / 5 < 2 /\ 10 - 9 < 2 /\ (10 - 9) * (10 - 9) + (10 - 9) * (10 - 9) < 2 * 2.
Proof. exact parallel_edges_example. Qed.

(* ================================================================== *)
(* 3-D edge correction, THE CORNER TERM and the general statement       *)
(* Model/StaticGeom5.v, Proofs/StaticCorner.v                           *)
(* ================================================================== *)
From TP Require Import Model.StaticGeom5 Proofs.StaticCorner.

(* HEADLINE (3-D), about the code as it is now.  For EVERY r > 0, EVERY centre
   in the closed box and every coordinate axis ax: with a the area, about ax, of
   the part of the sphere of radius r inside the box (it exists; it is unique by
   C19_axial_area_unique and the same for the three axes by
   C19_area_3d_axis_independent below), the generated area_3d_bounded returns
   NaN when a < 10^-7 r^2 and a otherwise.  No restriction on which caps, edge
   terms (of one, two or three directions) and corner terms are switched on;
   centre on a face, on an edge or in a corner of the box included; r may exceed
   the box.

   Proof: the area about ax is the integral over the height t of r times the
   slice measure (C19_area_3d_slice_integral_partial); inside the slab of the
   two faces perpendicular to ax the slice measure is 2 PI - four cap widths +
   four corner widths of the slice circle; each of these nine pieces is
   integrated over the slab as  whole - lower tail - upper tail  with
   whole = the 3-D cap / edge term (C19_cap_and_edge_integrals) and the tails
   C19_cap_and_edge_tails below: the tail of a cap width beyond a perpendicular
   face is the EDGE term, the tail of a corner width is the CORNER term
   sphere_corner_area (same antiderivative Gh as for the lune, evaluated at the
   truncation height; atan u + atan (1/u) = PI/2 is the only identity needed);
   the 27 terms are the code's 4 PI r^2 - 6 caps + 12 edges - 8 corners
   (C19_area_3d_grouped_by_axis, no hypothesis).

   What is NOT proved: that the axial area r dphi dt coincides with the surface
   area defined by some other means for arbitrary sets (r dphi dt IS the
   Euclidean surface element, C19_axial_area_element; for the sets concerned
   here the three axes give the same value). *)
Theorem C19_area_3d_bounded_is_area : forall ax r cx cy cz x0 x1 y0 y1 z0 z1,
  0 < r -> (x0 <= cx <= x1 /\ y0 <= cy <= y1 /\ z0 <= cz <= z1) ->
  exists a,
    has_axial_area ax r
      (fun p => x0 <= cx + fst (fst p) <= x1 /\ y0 <= cy + snd (fst p) <= y1 /\ z0 <= cz + snd p <= z1) a /\
    (a < / (10 ^ 7) * r ^ 2 -> py_area_3d_bounded r cx cy cz x0 x1 y0 y1 z0 z1 = None) /\
    (/ (10 ^ 7) * r ^ 2 <= a -> py_area_3d_bounded r cx cy cz x0 x1 y0 y1 z0 z1 = Some a).
Proof. exact gen_area_3d_bounded_is_area. Qed.
Print Assumptions C19_area_3d_bounded_is_area.

(* the same about the hand-written reading area_3d_bounded (before the NaN mask) *)
Theorem C19_area_3d_model_is_area : forall ax r cx cy cz x0 x1 y0 y1 z0 z1,
  0 < r -> (x0 <= cx <= x1 /\ y0 <= cy <= y1 /\ z0 <= cz <= z1) ->
  has_axial_area ax r
    (fun p => x0 <= cx + fst (fst p) <= x1 /\ y0 <= cy + snd (fst p) <= y1 /\ z0 <= cz + snd p <= z1)
    (area_3d_bounded r cx cy cz x0 x1 y0 y1 z0 z1).
Proof. exact area_3d_bounded_is_area. Qed.

(* the area of (sphere /\ box) does not depend on the axis about which it is measured *)
Theorem C19_area_3d_axis_independent : forall ax ax' r cx cy cz x0 x1 y0 y1 z0 z1 a a',
  0 < r -> (x0 <= cx <= x1 /\ y0 <= cy <= y1 /\ z0 <= cz <= z1) ->
  has_axial_area ax r
    (fun p => x0 <= cx + fst (fst p) <= x1 /\ y0 <= cy + snd (fst p) <= y1 /\ z0 <= cz + snd p <= z1) a ->
  has_axial_area ax' r
    (fun p => x0 <= cx + fst (fst p) <= x1 /\ y0 <= cy + snd (fst p) <= y1 /\ z0 <= cz + snd p <= z1) a' ->
  a = a'.
Proof. exact box_area_axis_independent. Qed.
Print Assumptions C19_area_3d_axis_independent.

(* The tails.  g, g1, g2 = distances of faces parallel to the slicing axis,
   h = distance of a face perpendicular to it; rho r t = sqrt(r^2 - t^2); all
   terms with the code's masks; all distances >= 0 (zero included). *)
Theorem C19_cap_and_edge_tails : forall r,
  0 < r ->
  (forall g h, 0 <= g -> 0 <= h ->
     is_RInt (fun t => r * (cap_term g (rho r t) / rho r t)) (Rmin h r) r (sedge_term g h r)) /\
  (forall g1 g2 h, 0 <= g1 -> 0 <= g2 -> 0 <= h ->
     is_RInt (fun t => r * (corner_term g1 g2 (rho r t) / rho r t)) (Rmin h r) r (scorner_term g1 g2 h r)).
Proof. intros r Hr. split; [intros; apply cap_tail|intros; apply corner_tail]; assumption. Qed.
Print Assumptions C19_cap_and_edge_tails.

(* The slice integral in closed form, every regime: lo, hi = distances of the
   faces perpendicular to the axis, hl, hr, hb, ht = of the four others.
   area_3d_sliced (Model/StaticGeom5.v) =
     4 PI r^2 - cap lo - cap hi
     - SUM_{g in hl,hr,hb,ht} (cap g - edge(g, lo) - edge(g, hi))
     + SUM_{(g1,g2) in (hl,hb),(hl,ht),(hr,hb),(hr,ht)} (edge(g1,g2) - corner(g1,g2,lo) - corner(g1,g2,hi)) *)
Theorem C19_slice_integral_closed_form : forall r lo hi hl hr hb ht,
  0 < r -> 0 <= lo -> 0 <= hi -> 0 <= hl -> 0 <= hr -> 0 <= hb -> 0 <= ht ->
  is_RInt (fun t => r * slice_measure r lo hi hl hr hb ht t) (- r) r (area_3d_sliced r lo hi hl hr hb ht).
Proof. exact slice_integral_closed_form. Qed.

(* ... which is the code's expression, for each axis, without any hypothesis *)
Theorem C19_area_3d_grouped_by_axis : forall ax r xm xp ym yp zm zp,
  area_3d r xm xp ym yp zm zp =
  let '(hl, hr, hb, ht) := lateral ax xm xp ym yp zm zp in
  area_3d_sliced r (fst (along ax xm xp ym yp zm zp)) (snd (along ax xm xp ym yp zm zp)) hl hr hb ht.
Proof. exact area_3d_is_sliced. Qed.

(* The corner term itself: sphere_corner_area dx dy dz r IS the area (about the
   box edge along z) of the spherical triangle { p on the sphere | dx <= p_x,
   dy <= p_y, dz <= p_z } cut off by three mutually adjacent faces whose common
   corner lies inside the sphere (faces through the centre included). *)
Theorem C19_sphere_corner_area_is_triangle : forall dx dy dz r,
  0 < r -> 0 <= dx -> 0 <= dy -> 0 <= dz -> dx * dx + dy * dy + dz * dz < r * r ->
  has_axial_area AZ r (fun p => dx <= fst (fst p) /\ dy <= snd (fst p) /\ dz <= snd p)
                 (sphere_corner_area dx dy dz r).
Proof. exact corner_area_is_triangle. Qed.
Print Assumptions C19_sphere_corner_area_is_triangle.

(* three mutually adjacent faces within reach, the corner inside the sphere, the
   three other faces out of reach: full inclusion-exclusion; by
   C19_area_3d_model_is_area it is the true area *)
Theorem C19_area_3d_three_adjacent : forall r xm dx ym dy zm dz,
  0 < r -> 0 <= dx -> 0 <= dy -> 0 <= dz -> dx * dx + dy * dy + dz * dz < r * r ->
  r <= xm -> r <= ym -> r <= zm ->
  area_3d r xm dx ym dy zm dz
  = 4 * PI * (r * r) - sphere_cap_area dx r - sphere_cap_area dy r - sphere_cap_area dz r
    + sphere_edge_area dx dy r + sphere_edge_area dx dz r + sphere_edge_area dy dz r
    - sphere_corner_area dx dy dz r.
Proof. exact area_3d_three_adjacent. Qed.

(* non-vacuity: box [0,10]^3, r = 2, centre (9, 9, 9): three faces at distance
   1, the box corner inside the sphere: three edge terms of three different
   directions and the corner term are on. *)
Example C19_area_3d_corner_example :
  (0 <= 9 <= 10 /\ 0 <= 9 <= 10 /\ 0 <= 9 <= 10) /\
  (10 - 9) * (10 - 9) + (10 - 9) * (10 - 9) + (10 - 9) * (10 - 9) < 2 * 2 /\
  area_3d_bounded 2 9 9 9 0 10 0 10 0 10
  = 4 * PI * (2 * 2) - 3 * sphere_cap_area 1 2 + 3 * sphere_edge_area 1 1 2 - sphere_corner_area 1 1 1 2.
Proof. exact area_3d_corner_example. Qed.

(* ================================================================== *)
(* route T for the pair-correlation functions themselves               *)
(* ================================================================== *)
(* Gen/paircorr.v is regenerated from trackpy/static.py by tools/py2coq_paircorr.py on every run:
   pair_correlation_2d / pair_correlation_3d statement by statement -- the boundary / bounding-box
   branch, the filter of the particles outside the boundary, the default density, p_indices (None: all
   particles, or the drawn sample when fraction < 1; a given list), r_edges, the kd-tree query, the
   MemoryError and RuntimeError guards, the mask dist > 0 & isfinite, the handle_edge branch (pos
   repeated: the edge measure at the REFERENCE particle), np.histogram with weights 1/arclen, the
   normalisation by ndensity * len(pos) * dr -- over a record of named numpy / pandas / scipy primitives.
   PairCorrI (Model/PyPairCorr.v) interprets the record: floats as exact rationals, distances squared,
   the query as "all particles strictly within cutoff of each reference particle, padded with inf to
   max_p_count columns", arc = the edge measure (parameter, as in the hand-written model), pi_q = the
   float np.pi (any rational), oracle = np.random.randint, scale_sqrt c d2 = c * sqrt d2 (left open). *)
From TP Require Import Model.PyPairCorr Gen.paircorr Proofs.StaticPairCorrGen.
Open Scope Q_scope.

(* The generated pair_correlation_2d, wherever it does not raise, IS the hand-written model:
   r_edges are the nbins + 1 edges k * dr; g_r = pair_correlation_sel with the reference particles
   gen_idx (p_indices if given, else all particles if fraction == 1, else the drawn sample), the
   edge measure arc at the reference particle (handle_edge) or the free circle 2 pi r.
   With p_indices = None and fraction = 1 this is pair_correlation (C19_gr_sel_all). *)
Theorem C19_gen_gr_2d_is_model :
  forall (arc : Q -> list Q -> option Q) (pi_q : Q) (oracle : Z -> Z -> Z -> list nat) (scale_sqrt : Q -> Q -> option Q)
         (feat : list qpt) (cutoff fraction dr : Q) (p_indices : option (list nat)) (ndensity : option Q)
         (boundary : option (Q * Q * Q * Q)) (handle_edge : bool) (max_rel_ndensity : Q)
         (r_edges : list Q) (g : list (option Q)),
  List.Forall (fun p => List.length p = 2%nat) feat -> 0 < dr -> 0 <= cutoff ->
  py_pair_correlation_2d (PairCorrI arc pi_q oracle scale_sqrt) feat cutoff fraction dr p_indices ndensity boundary
                         handle_edge max_rel_ndensity = Ok (r_edges, g) ->
  let b := option_map box_of4 boundary in
  r_edges = List.map (fun k => inject_Z (Z.of_nat k) * dr) (List.seq 0 (S (nbins cutoff dr))) /\
  g = pair_correlation_sel (if handle_edge then arc else fun d2 _ => scale_sqrt (inject_Z 2 * pi_q) d2) 2 b feat
        (gen_idx oracle fraction p_indices (List.length (kept b feat))) ndensity cutoff dr.
Proof. exact py_pair_correlation_2d_eq. Qed.
Print Assumptions C19_gen_gr_2d_is_model.

(* pair_correlation_3d likewise; without edge handling the measure is 4 pi r^2, rational in the squared distance *)
Theorem C19_gen_gr_3d_is_model :
  forall (arc : Q -> list Q -> option Q) (pi_q : Q) (oracle : Z -> Z -> Z -> list nat) (scale_sqrt : Q -> Q -> option Q)
         (feat : list qpt) (cutoff fraction dr : Q) (p_indices : option (list nat)) (ndensity : option Q)
         (boundary : option (Q * Q * Q * Q * Q * Q)) (handle_edge : bool) (max_rel_ndensity : Q)
         (r_edges : list Q) (g : list (option Q)),
  List.Forall (fun p => List.length p = 3%nat) feat -> 0 < dr -> 0 <= cutoff ->
  py_pair_correlation_3d (PairCorrI arc pi_q oracle scale_sqrt) feat cutoff fraction dr p_indices ndensity boundary
                         handle_edge max_rel_ndensity = Ok (r_edges, g) ->
  let b := option_map box_of6 boundary in
  r_edges = List.map (fun k => inject_Z (Z.of_nat k) * dr) (List.seq 0 (S (nbins cutoff dr))) /\
  g = pair_correlation_sel (if handle_edge then arc else fun d2 _ => Some (inject_Z 4 * pi_q * d2)) 3 b feat
        (gen_idx oracle fraction p_indices (List.length (kept b feat))) ndensity cutoff dr.
Proof. exact py_pair_correlation_3d_eq. Qed.
Print Assumptions C19_gen_gr_3d_is_model.

(* C19_gr_sel_is_normalised_corrected_histogram for the generated functions: bin k of the returned g_r is
   the sum, over the ordered pairs (reference particle p, particle q) with 0 < |p - q| < cutoff and
   k dr <= |p - q| < (k+1) dr, of 1 / measure(|p - q|, wall distances of p), divided by
   density * number of reference particles * dr (NaN if a measure is NaN). *)
Theorem C19_gen_gr_2d_is_normalised_corrected_histogram :
  forall (arc : Q -> list Q -> option Q) (pi_q : Q) (oracle : Z -> Z -> Z -> list nat) (scale_sqrt : Q -> Q -> option Q)
         (feat : list qpt) (cutoff fraction dr : Q) (p_indices : option (list nat)) (ndensity : option Q)
         (boundary : option (Q * Q * Q * Q)) (handle_edge : bool) (max_rel_ndensity : Q)
         (r_edges : list Q) (g : list (option Q)) (k : nat),
  List.Forall (fun p => List.length p = 2%nat) feat -> 0 < dr -> 0 <= cutoff ->
  py_pair_correlation_2d (PairCorrI arc pi_q oracle scale_sqrt) feat cutoff fraction dr p_indices ndensity boundary
                         handle_edge max_rel_ndensity = Ok (r_edges, g) ->
  (k < nbins cutoff dr)%nat ->
  let ob := option_map box_of4 boundary in
  let b := match ob with Some bx => bx | None => bbox 2 feat end in
  let parts := kept ob feat in
  let refs := select (gen_idx oracle fraction p_indices (List.length parts)) parts in
  let rho := match ndensity with Some r => r | None => ndens_default (List.length parts) b end in
  let measure := if handle_edge then arc else fun d2 (_ : list Q) => scale_sqrt (inject_Z 2 * pi_q) d2 in
  List.nth_error g k
  = Some (finish (rho * inject_Z (Z.of_nat (List.length refs)) * dr)
      (List.fold_left addw
         (List.map (fun pq => option_map Qinv (measure (Qred (qd2 (fst pq) (snd pq))) (walls (fst pq) b)))
              (List.filter (fun pq => in_range (cutoff * cutoff) (fst pq) (snd pq)
                                 && (Qle_bool (edge2 dr k) (qd2 (fst pq) (snd pq))
                                     && Qltb (qd2 (fst pq) (snd pq)) (edge2 dr (S k))))
                      (List.list_prod refs parts)))
         (0%nat, 0))).
Proof. exact py_gr_2d_spec. Qed.
Print Assumptions C19_gen_gr_2d_is_normalised_corrected_histogram.

Theorem C19_gen_gr_3d_is_normalised_corrected_histogram :
  forall (arc : Q -> list Q -> option Q) (pi_q : Q) (oracle : Z -> Z -> Z -> list nat) (scale_sqrt : Q -> Q -> option Q)
         (feat : list qpt) (cutoff fraction dr : Q) (p_indices : option (list nat)) (ndensity : option Q)
         (boundary : option (Q * Q * Q * Q * Q * Q)) (handle_edge : bool) (max_rel_ndensity : Q)
         (r_edges : list Q) (g : list (option Q)) (k : nat),
  List.Forall (fun p => List.length p = 3%nat) feat -> 0 < dr -> 0 <= cutoff ->
  py_pair_correlation_3d (PairCorrI arc pi_q oracle scale_sqrt) feat cutoff fraction dr p_indices ndensity boundary
                         handle_edge max_rel_ndensity = Ok (r_edges, g) ->
  (k < nbins cutoff dr)%nat ->
  let ob := option_map box_of6 boundary in
  let b := match ob with Some bx => bx | None => bbox 3 feat end in
  let parts := kept ob feat in
  let refs := select (gen_idx oracle fraction p_indices (List.length parts)) parts in
  let rho := match ndensity with Some r => r | None => ndens_default (List.length parts) b end in
  let measure := if handle_edge then arc else fun d2 (_ : list Q) => Some (inject_Z 4 * pi_q * d2) in
  List.nth_error g k
  = Some (finish (rho * inject_Z (Z.of_nat (List.length refs)) * dr)
      (List.fold_left addw
         (List.map (fun pq => option_map Qinv (measure (Qred (qd2 (fst pq) (snd pq))) (walls (fst pq) b)))
              (List.filter (fun pq => in_range (cutoff * cutoff) (fst pq) (snd pq)
                                 && (Qle_bool (edge2 dr k) (qd2 (fst pq) (snd pq))
                                     && Qltb (qd2 (fst pq) (snd pq)) (edge2 dr (S k))))
                      (List.list_prod refs parts)))
         (0%nat, 0))).
Proof. exact py_gr_3d_spec. Qed.
Print Assumptions C19_gen_gr_3d_is_normalised_corrected_histogram.

(* C19_gr_sel_permutation for the generated functions: the particles listed in another order, the same
   reference particles (wherever they now stand, in any order): two runs that do not raise return the
   same r_edges and the same g_r. *)
Theorem C19_gen_gr_2d_permutation :
  forall (arc : Q -> list Q -> option Q) (pi_q : Q) (oracle : Z -> Z -> Z -> list nat) (scale_sqrt : Q -> Q -> option Q)
         (feat feat' : list qpt) (cutoff fraction dr : Q) (idx idx' : list nat) (ndensity : option Q)
         (boundary : option (Q * Q * Q * Q)) (handle_edge : bool) (max_rel_ndensity : Q)
         (r_edges : list Q) (g : list (option Q)) (r_edges' : list Q) (g' : list (option Q)),
  List.Forall (fun p => List.length p = 2%nat) feat -> 0 < dr -> 0 <= cutoff ->
  Permutation feat feat' ->
  (let ob := option_map box_of4 boundary in Permutation (select idx (kept ob feat)) (select idx' (kept ob feat'))) ->
  py_pair_correlation_2d (PairCorrI arc pi_q oracle scale_sqrt) feat cutoff fraction dr (Some idx) ndensity boundary
                         handle_edge max_rel_ndensity = Ok (r_edges, g) ->
  py_pair_correlation_2d (PairCorrI arc pi_q oracle scale_sqrt) feat' cutoff fraction dr (Some idx') ndensity boundary
                         handle_edge max_rel_ndensity = Ok (r_edges', g') ->
  r_edges' = r_edges /\ g' = g.
Proof. exact py_gr_2d_permutation. Qed.
Print Assumptions C19_gen_gr_2d_permutation.

Theorem C19_gen_gr_3d_permutation :
  forall (arc : Q -> list Q -> option Q) (pi_q : Q) (oracle : Z -> Z -> Z -> list nat) (scale_sqrt : Q -> Q -> option Q)
         (feat feat' : list qpt) (cutoff fraction dr : Q) (idx idx' : list nat) (ndensity : option Q)
         (boundary : option (Q * Q * Q * Q * Q * Q)) (handle_edge : bool) (max_rel_ndensity : Q)
         (r_edges : list Q) (g : list (option Q)) (r_edges' : list Q) (g' : list (option Q)),
  List.Forall (fun p => List.length p = 3%nat) feat -> 0 < dr -> 0 <= cutoff ->
  Permutation feat feat' ->
  (let ob := option_map box_of6 boundary in Permutation (select idx (kept ob feat)) (select idx' (kept ob feat'))) ->
  py_pair_correlation_3d (PairCorrI arc pi_q oracle scale_sqrt) feat cutoff fraction dr (Some idx) ndensity boundary
                         handle_edge max_rel_ndensity = Ok (r_edges, g) ->
  py_pair_correlation_3d (PairCorrI arc pi_q oracle scale_sqrt) feat' cutoff fraction dr (Some idx') ndensity boundary
                         handle_edge max_rel_ndensity = Ok (r_edges', g') ->
  r_edges' = r_edges /\ g' = g.
Proof. exact py_gr_3d_permutation. Qed.
Print Assumptions C19_gen_gr_3d_permutation.

(* C19_gr_sel_translation for the generated functions: particles and boundary translated by (tx, ty)
   [(tx, ty, tz)]; p_indices given (in range), None with fraction = 1, or drawn (the oracle is asked the
   same question: the number of particles inside the boundary is the same). *)
Theorem C19_gen_gr_2d_translation :
  forall (arc : Q -> list Q -> option Q) (pi_q : Q) (oracle : Z -> Z -> Z -> list nat) (scale_sqrt : Q -> Q -> option Q)
         (tx ty : Q) (feat : list qpt) (cutoff fraction dr : Q) (p_indices : option (list nat)) (ndensity : option Q)
         (a b c d : Q) (handle_edge : bool) (max_rel_ndensity : Q)
         (r_edges : list Q) (g : list (option Q)) (r_edges' : list Q) (g' : list (option Q)),
  List.Forall (fun p => List.length p = 2%nat) feat -> 0 < dr -> 0 <= cutoff ->
  (forall i, List.In i (gen_idx oracle fraction p_indices (List.length (List.filter (inside [(a, b); (c, d)]) feat))) ->
             (i < List.length (List.filter (inside [(a, b); (c, d)]) feat))%nat) ->
  py_pair_correlation_2d (PairCorrI arc pi_q oracle scale_sqrt) feat cutoff fraction dr p_indices ndensity
                         (Some (a, b, c, d)) handle_edge max_rel_ndensity = Ok (r_edges, g) ->
  py_pair_correlation_2d (PairCorrI arc pi_q oracle scale_sqrt) (List.map (shift [tx; ty]) feat) cutoff fraction dr
                         p_indices ndensity (Some (a + tx, b + tx, c + ty, d + ty)) handle_edge max_rel_ndensity
    = Ok (r_edges', g') ->
  r_edges' = r_edges /\ g' = g.
Proof. exact py_gr_2d_translation. Qed.
Print Assumptions C19_gen_gr_2d_translation.

Theorem C19_gen_gr_3d_translation :
  forall (arc : Q -> list Q -> option Q) (pi_q : Q) (oracle : Z -> Z -> Z -> list nat) (scale_sqrt : Q -> Q -> option Q)
         (tx ty tz : Q) (feat : list qpt) (cutoff fraction dr : Q) (p_indices : option (list nat)) (ndensity : option Q)
         (a b c d e f : Q) (handle_edge : bool) (max_rel_ndensity : Q)
         (r_edges : list Q) (g : list (option Q)) (r_edges' : list Q) (g' : list (option Q)),
  List.Forall (fun p => List.length p = 3%nat) feat -> 0 < dr -> 0 <= cutoff ->
  (forall i, List.In i (gen_idx oracle fraction p_indices
                          (List.length (List.filter (inside [(a, b); (c, d); (e, f)]) feat))) ->
             (i < List.length (List.filter (inside [(a, b); (c, d); (e, f)]) feat))%nat) ->
  py_pair_correlation_3d (PairCorrI arc pi_q oracle scale_sqrt) feat cutoff fraction dr p_indices ndensity
                         (Some (a, b, c, d, e, f)) handle_edge max_rel_ndensity = Ok (r_edges, g) ->
  py_pair_correlation_3d (PairCorrI arc pi_q oracle scale_sqrt) (List.map (shift [tx; ty; tz]) feat) cutoff fraction dr
                         p_indices ndensity (Some (a + tx, b + tx, c + ty, d + ty, e + tz, f + tz)) handle_edge
                         max_rel_ndensity = Ok (r_edges', g') ->
  r_edges' = r_edges /\ g' = g.
Proof. exact py_gr_3d_translation. Qed.
Print Assumptions C19_gen_gr_3d_translation.

(* non-vacuity, by computation on the generated text: the three particles of C19_gr_sel_example, the last one
   the only reference particle, the measure 1 + distance to the left wall: max_p_count = int(355/113 * 16 *
   1/8 * 10) = 62, no guard fires, the generated function returns the edges 0..3 and the bins of
   C19_gr_sel_example.  With max_rel_ndensity = 1/2 max_p_count = 3 = the number of neighbours found (the
   particle itself included): RuntimeError; with 10^8: MemoryError.  Default p_indices, default bounding box,
   3-D: the plain pair_correlation. *)
Example C19_gen_gr_example :
  py_pair_correlation_2d (PairCorrI (fun _ h => Some (1 + List.nth 0 h 0)) (355 # 113) (fun _ _ _ => nil) (fun _ _ => None))
      [[0; 0]; [1; 0]; [2; 0]] 3 1 1 (Some (2%nat :: nil)) None (Some (0, 4, 0, 4)) true 10
  = Ok ([0; 1; 2; 3], [Some 0; Some (8 # 3); Some (8 # 3)]) /\
  py_pair_correlation_2d (PairCorrI (fun _ h => Some (1 + List.nth 0 h 0)) (355 # 113) (fun _ _ _ => nil) (fun _ _ => None))
      [[0; 0]; [1; 0]; [2; 0]] 3 1 1 (Some (2%nat :: nil)) None (Some (0, 4, 0, 4)) true (1 # 2)
  = Raise RuntimeError /\
  py_pair_correlation_2d (PairCorrI (fun _ h => Some (1 + List.nth 0 h 0)) (355 # 113) (fun _ _ _ => nil) (fun _ _ => None))
      [[0; 0]; [1; 0]; [2; 0]] 3 1 1 (Some (2%nat :: nil)) None (Some (0, 4, 0, 4)) true 100000000
  = Raise MemoryError /\
  (exists e g, py_pair_correlation_3d (PairCorrI (fun _ _ => Some 1) (355 # 113) (fun _ _ _ => nil) (fun _ _ => None))
      [[0; 0; 0]; [1; 0; 2]; [2; 4; 1]] 3 1 1 None None None true 10 = Ok (e, g) /\
    g = pair_correlation (fun _ _ => Some 1) 3 None [[0; 0; 0]; [1; 0; 2]; [2; 4; 1]] None 3 1).
Proof.
  split; [vm_compute; reflexivity|]. split; [vm_compute; reflexivity|]. split; [vm_compute; reflexivity|].
  eexists; eexists; split; [vm_compute; reflexivity|vm_compute; reflexivity].
Qed.
