(* C06 -- grey_dilation returns exactly the admissible local maxima.
   Only statements closed by [exact]; models in Model/Dilation.v, proofs in
   Proofs/Dilation.v.  Vocabulary (all total, defined in those files):
     pix im c            pixel of the n-D image at index tuple c, 0 outside the image
     in_bounds sh p      0 <= p_k < sh_k on every axis
     in_box sizes p q    p_k - (s_k-1)/2 <= q_k <= p_k + s_k/2 on every axis (scipy's reflected box)
     outside_margin sh m p   m_k <= p_k <= sh_k - m_k - 1 on every axis
     closer_than_sep sep p q  sum_k (p_k/sep_k - q_k/sep_k)^2 < 1
     percentile          np.percentile(., q), a parameter; applied to the non-zero pixels
     convert_to_int f im the 8-bit rescale of a float image (f = true), identity on integer images *)
From Coq Require Import ZArith QArith Qround List Bool.
From TP Require Import Model.Dilation Model.DilationCheck Proofs.Dilation.
Import ListNotations.
Open Scope Z_scope.

(* precise=False: the returned list is, as a set, exactly
     { p | p inside the image, pixel(p) > percentile threshold of the non-zero pixels,
           no pixel of the box around p (zeros outside the image) exceeds pixel(p),
           p outside the margin }
   -- both inclusions, any number of dimensions, any shape, integer or float image
   (float: all of this on the rescaled 8-bit image); nothing is returned for an
   all-black image.  Box sizes are box_size ndim sep_k (see C06_box_size). *)
Theorem C06_maxima_exact :
  forall (percentile : list Z -> Q) (is_float : bool) (im0 : image) (sep : list Q)
         (margin : option (list Z)) (p : list Z),
  let im := convert_to_int is_float im0 in
  let ndim := Z.of_nat (length (shape im)) in
  let sizes := map (box_size ndim) sep in
  let mg := match margin with Some m => m | None => map (fun s => Qfloor (s / 2)) sep end in
  length sep = length (shape im) -> length mg = length (shape im) ->
  Forall (fun s => 1 <= s) sizes ->
  (In p (grey_dilation percentile is_float im0 sep margin false) <->
   not_black im <> [] /\
   in_bounds (shape im) p /\
   (percentile (not_black im) < inject_Z (pix im p))%Q /\
   (forall q, in_box sizes p q -> pix im q <= pix im p) /\
   outside_margin (shape im) mg p).
Proof. exact maxima_exact. Qed.
Print Assumptions C06_maxima_exact.

(* ... and no pixel is returned twice *)
Theorem C06_maxima_nodup :
  forall percentile is_float im0 sep margin,
  NoDup (grey_dilation percentile is_float im0 sep margin false).
Proof. exact maxima_nodup. Qed.
Print Assumptions C06_maxima_nodup.

(* size = int(2*s/sqrt(ndim)) is the largest k with k*sqrt(ndim) <= 2*s, i.e. the
   largest cube inscribed in the sphere of radius s (s = num/den) *)
Theorem C06_box_size : forall ndim s, 0 < ndim ->
  let k := box_size ndim s in
  0 <= k /\
  k * k * ndim * (QDen s * QDen s) <= 4 * (Qnum s * Qnum s)
    < (k + 1) * (k + 1) * ndim * (QDen s * QDen s).
Proof. exact box_size_spec. Qed.
Print Assumptions C06_box_size.

(* float images are first rescaled to 8 bits: pixel -> floor(255*max(v,0)/vmax),
   vmax the largest pixel; integer images are left alone *)
Theorem C06_float_rescale : forall im vmax, image_max im = Some vmax ->
  ((exists c, in_bounds (shape im) c /\ pix im c = vmax) /\
   (forall c, in_bounds (shape im) c -> pix im c <= vmax)) /\
  shape (convert_to_int true im) = shape im /\
  (forall c, pix (convert_to_int true im) c =
             if 0 <? vmax then (255 * Z.max (pix im c) 0) / vmax else 0) /\
  convert_to_int false im = im.
Proof.
  exact (fun im vmax H => conj (image_max_spec im vmax H)
           (conj (proj1 (convert_to_int_spec im vmax H))
                 (conj (proj2 (convert_to_int_spec im vmax H)) (convert_to_int_integer im)))).
Qed.
Print Assumptions C06_float_rescale.

(* precise=True returns a subset of the precise=False result *)
Theorem C06_precise_subset :
  forall percentile is_float im0 sep margin p,
  In p (grey_dilation percentile is_float im0 sep margin true) ->
  In p (grey_dilation percentile is_float im0 sep margin false).
Proof. exact precise_subset. Qed.
Print Assumptions C06_precise_subset.

(* in which no two points are closer than separation *)
Theorem C06_precise_separated :
  forall percentile is_float im0 sep margin,
  Forall (fun s => ~ (s == 0)%Q) sep ->
  forall p q,
  In p (grey_dilation percentile is_float im0 sep margin true) ->
  In q (grey_dilation percentile is_float im0 sep margin true) ->
  p <> q -> ~ closer_than_sep sep (map inject_Z p) (map inject_Z q).
Proof. exact precise_separated. Qed.
Print Assumptions C06_precise_separated.

(* and a maximum is discarded only if another, at-least-as-bright maximum lies within separation *)
Theorem C06_precise_justified :
  forall percentile is_float im0 sep margin,
  Forall (fun s => ~ (s == 0)%Q) sep ->
  forall p,
  In p (grey_dilation percentile is_float im0 sep margin false) ->
  ~ In p (grey_dilation percentile is_float im0 sep margin true) ->
  exists q, In q (grey_dilation percentile is_float im0 sep margin false) /\ q <> p /\
            closer_than_sep sep (map inject_Z q) (map inject_Z p) /\
            pix (convert_to_int is_float im0) p <= pix (convert_to_int is_float im0) q.
Proof. exact precise_justified. Qed.
Print Assumptions C06_precise_justified.

(* where_close, exactly: feature k is reported iff some other feature j closer than
   separation beats it -- j brighter; at equal brightness (or no intensities) j has the
   larger rescaled coordinate sum; at equal sums j comes later.  [beats] is a strict
   total order, so exactly one member of every close pair is reported. *)
Theorem C06_where_close_exact :
  forall (pos : list (list Q)) (sep : list Q) (intensity : option (list Z)),
  Forall (fun s => ~ (s == 0)%Q) sep ->
  forall k,
  In k (where_close pos sep intensity) <->
  (k < length pos)%nat /\
  exists j, (j < length pos)%nat /\ j <> k /\
            closer_than_sep sep (nth j pos []) (nth k pos []) /\
            ((inten_of intensity k < inten_of intensity j) \/
             (inten_of intensity j = inten_of intensity k /\
              ((total (rescale_pos (nth k pos []) sep) < total (rescale_pos (nth j pos []) sep))%Q \/
               ((total (rescale_pos (nth j pos []) sep) == total (rescale_pos (nth k pos []) sep))%Q /\ (k < j)%nat)))).
Proof. exact where_close_spec. Qed.
Print Assumptions C06_where_close_exact.

(* drop_close keeps exactly the rows whose index where_close does not report *)
Theorem C06_drop_close_exact :
  forall (pos : list (list Q)) sep intensity x,
  In x (drop_close (fun p => p) pos sep intensity) <->
  exists i, nth_error pos i = Some x /\ ~ In i (where_close pos sep intensity).
Proof. exact drop_close_exact. Qed.
Print Assumptions C06_drop_close_exact.

(* for one separation s on all axes, "closer than separation" is the plain Euclidean test *)
Theorem C06_closer_isotropic : forall (s : Q) n p q, (0 < s)%Q ->
  length p = n -> length q = n ->
  (closer_than_sep (repeat s n) p q <-> (sqdist p q < s * s)%Q).
Proof. exact closer_than_sep_iso. Qed.
Print Assumptions C06_closer_isotropic.

(* Monitors run on the implementation's outputs (vp/props/c06.py) are sound:
   result code 0 of check_gd on a precise=False output means that output is, as a set,
   exactly the admissible local maxima for the threshold handed over ... *)
Theorem C06_monitor_maxima_sound :
  forall (is_float : bool) (im0 : image) (sep : list Q) (margin : option (list Z)) (thr : Q)
         (out : list (list Z)) (p : list Z),
  let im := convert_to_int is_float im0 in
  let sizes := map (box_size (Z.of_nat (length (shape im)))) sep in
  let mg := match margin with Some m => m | None => map (fun s => Qfloor (s / 2)) sep end in
  check_gd is_float im0 sep margin thr false out = 0%N ->
  length sep = length (shape im) -> length mg = length (shape im) ->
  Forall (fun s => 1 <= s) sizes ->
  (In p out <->
   not_black im <> [] /\
   in_bounds (shape im) p /\
   (thr < inject_Z (pix im p))%Q /\
   (forall q, in_box sizes p q -> pix im q <= pix im p) /\
   outside_margin (shape im) mg p).
Proof. exact monitor_maxima_exact. Qed.
Print Assumptions C06_monitor_maxima_sound.

(* ... and code 0 of check_precise means: subset of the candidates, no repeats, pairwise
   separated, every discarded candidate has an at-least-as-bright candidate within separation *)
Theorem C06_monitor_precise_sound : forall im sep cands out,
  check_precise im sep cands out = 0%N ->
  (forall p, In p out -> In p cands) /\ NoDup out /\
  (forall p q, In p out -> In q out -> p <> q ->
               ~ closer_than_sep sep (map inject_Z p) (map inject_Z q)) /\
  (forall p, In p cands -> ~ In p out ->
     exists q, In q cands /\ q <> p /\
               closer_than_sep sep (map inject_Z q) (map inject_Z p) /\ pix im p <= pix im q).
Proof. exact check_precise_sound. Qed.
Print Assumptions C06_monitor_precise_sound.

(* ------------------------------------------------------------ non-vacuity *)
Definition ex_img : image :=
  {| shape := [4; 5];
     data := Node [Node (map Leaf [0; 0; 0; 0; 0]);
                   Node (map Leaf [0; 5; 1; 5; 0]);
                   Node (map Leaf [0; 1; 0; 4; 0]);
                   Node (map Leaf [0; 0; 0; 0; 0])] |}.

(* hypotheses of C06_maxima_exact are met and the result is non-trivial:
   separation 1.5 -> 2x2 box [i,i+1]; (1,1) and (1,3) are maxima, (2,3) is exceeded by (1,3)?
   no: (1,3) is not in the box [2,3]x[3,4] of (2,3), so (2,3) is a maximum too *)
Example C06_ex_maxima :
  grey_dilation (fun _ => (1 # 1)%Q) false ex_img [3 # 2; 3 # 2]%Q (Some [0; 0]) false = [[1; 1]; [1; 3]; [2; 3]]
  /\ map (box_size 2) [3 # 2; 3 # 2]%Q = [2; 2].
Proof. vm_compute. split; reflexivity. Qed.

(* precise=True drops (2,3) (dimmer, within 1.5 of (1,3)) and keeps the tie (1,1)/(1,3) (2 apart) *)
Example C06_ex_precise :
  grey_dilation (fun _ => (1 # 1)%Q) false ex_img [3 # 2; 3 # 2]%Q (Some [0; 0]) true = [[1; 1]; [1; 3]].
Proof. vm_compute. reflexivity. Qed.

(* default margin int(1.5/2) = 0; margin 1 removes nothing here, margin 2 removes everything *)
Example C06_ex_margin :
  grey_dilation (fun _ => (1 # 1)%Q) false ex_img [3 # 2; 3 # 2]%Q None false = [[1; 1]; [1; 3]; [2; 3]] /\
  grey_dilation (fun _ => (1 # 1)%Q) false ex_img [3 # 2; 3 # 2]%Q (Some [1; 1]) false = [[1; 1]; [1; 3]; [2; 3]] /\
  grey_dilation (fun _ => (1 # 1)%Q) false ex_img [3 # 2; 3 # 2]%Q (Some [2; 2]) false = [].
Proof. vm_compute. repeat split; reflexivity. Qed.

(* float image (pixels scaled by a power of two): 5 -> 255, 4 -> 204, 1 -> 51 *)
Example C06_ex_float :
  image_max ex_img = Some 5 /\
  pix (convert_to_int true ex_img) [2; 3] = 204 /\
  grey_dilation (fun _ => (60 # 1)%Q) true ex_img [3 # 2; 3 # 2]%Q (Some [0; 0]) true = [[1; 1]; [1; 3]].
Proof. vm_compute. repeat split; reflexivity. Qed.

(* where_close: tie between (1,2) and (2,1) at equal brightness and equal sums -> the earlier one is dropped;
   a chain 3 < 4 < 5 with only neighbours close drops both dimmer ones *)
Example C06_ex_where_close :
  where_close [[1#1; 2#1]; [2#1; 1#1]]%Q [2#1; 2#1]%Q (Some [4; 4]) = [0%nat] /\
  where_close [[0#1; 0#1]; [0#1; 3#1]; [0#1; 6#1]]%Q [4#1; 4#1]%Q (Some [3; 4; 5]) = [0%nat; 1%nat] /\
  where_close [[0#1; 0#1]; [3#1; 4#1]]%Q [5#1; 5#1]%Q None = [].
Proof. vm_compute. repeat split; reflexivity. Qed.

(* ===================================================================== route T
   Gen/find.v is regenerated on every run of ./check C06 from the CURRENT text of
   trackpy/find.py by tools/py2coq_find.py (fail-closed): percentile_threshold,
   where_close, drop_close and grey_dilation, statement by statement, over the
   vocabulary of Model/PyFind.v.  scipy.ndimage.grey_dilation, np.percentile and
   cKDTree.query_pairs are named primitives with the meaning Model/Dilation.v gives
   them (np_percentile is a parameter); convert_to_int is Model/Dilation.convert_to_int.
   The theorems below say that the generated functions ARE the model the theorems above
   are about, for all inputs, and restate the headline theorems for the generated code.
   Separations are non-negative: Python's int() truncates towards zero, and a negative
   box size is an error in scipy. *)
From TP Require Import Model.PyFind Proofs.FindGen.
From TP Require Gen.find.

(* percentile_threshold: NaN (None) when there is no non-zero pixel, else np.percentile of them *)
Theorem C06_gen_percentile_threshold_is_model :
  forall (np_percentile : list Z -> Q -> Q) (im : image) (percentile : Q),
  Gen.find.percentile_threshold np_percentile im percentile =
  match not_black im with [] => None | l => Some (np_percentile l percentile) end.
Proof. exact gen_percentile_threshold_eq. Qed.
Print Assumptions C06_gen_percentile_threshold_is_model.

(* grey_dilation as generated from the source = the model, every image (integer or float),
   separation, percentile, margin (None or a tuple), precise on or off *)
Theorem C06_gen_grey_dilation_is_model :
  forall (np_percentile : list Z -> Q -> Q) (is_float : bool) (im0 : image) (sep : list Q)
         (percentile : Q) (margin : option (list Z)) (precise : bool),
  Forall (fun s => (0 <= s)%Q) sep ->
  Gen.find.grey_dilation np_percentile is_float im0 sep percentile margin precise =
  grey_dilation (fun l => np_percentile l percentile) is_float im0 sep margin precise.
Proof. exact gen_grey_dilation_eq. Qed.
Print Assumptions C06_gen_grey_dilation_is_model.

(* where_close / drop_close as generated = the model, for float rows (inj = identity), for the
   integer rows grey_dilation hands over (inj = map inject_Z), for arrays and DataFrames *)
Theorem C06_gen_where_close_is_model :
  forall (A : Type) (inj : A -> list Q) (pos_is_frame : bool) (pos : list A) (sep : list Q)
         (intensity : option (list Z)),
  Gen.find.where_close inj pos_is_frame pos sep intensity = where_close (map inj pos) sep intensity.
Proof. exact @gen_where_close_eq. Qed.
Print Assumptions C06_gen_where_close_is_model.

Theorem C06_gen_drop_close_is_model :
  forall (A : Type) (inj : A -> list Q) (pos_is_frame : bool) (pos : list A) (sep : list Q)
         (intensity : option (list Z)),
  Gen.find.drop_close inj pos_is_frame pos sep intensity = drop_close inj pos sep intensity.
Proof. exact @gen_drop_close_eq. Qed.
Print Assumptions C06_gen_drop_close_is_model.

(* the primitive behind int(e / np.sqrt(n)): for e = num/den >= 0 it is the integer k with
   k sqrt(n) <= e < (k+1) sqrt(n); int(x) is the floor of a non-negative x *)
Theorem C06_gen_int_primitives : forall (e : Q) (n : Z), 0 < n -> (0 <= e)%Q ->
  (let k := int_div_sqrt e n in
   0 <= k /\
   k * k * n * (QDen e * QDen e) <= Qnum e * Qnum e < (k + 1) * (k + 1) * n * (QDen e * QDen e)) /\
  py_int e = Qfloor e.
Proof. exact (fun e n Hn He => conj (int_div_sqrt_spec e n Hn He) (py_int_floor e He)). Qed.
Print Assumptions C06_gen_int_primitives.

(* C06_maxima_exact for the generated grey_dilation *)
Theorem C06_gen_maxima_exact :
  forall (np_percentile : list Z -> Q -> Q) (percentile : Q) (is_float : bool) (im0 : image) (sep : list Q)
         (margin : option (list Z)) (p : list Z),
  let im := convert_to_int is_float im0 in
  let ndim := Z.of_nat (length (shape im)) in
  let sizes := map (box_size ndim) sep in
  let mg := match margin with Some m => m | None => map (fun s => Qfloor (s / 2)) sep end in
  Forall (fun s => (0 <= s)%Q) sep ->
  length sep = length (shape im) -> length mg = length (shape im) ->
  Forall (fun s => 1 <= s) sizes ->
  (In p (Gen.find.grey_dilation np_percentile is_float im0 sep percentile margin false) <->
   not_black im <> [] /\
   in_bounds (shape im) p /\
   (np_percentile (not_black im) percentile < inject_Z (pix im p))%Q /\
   (forall q, in_box sizes p q -> pix im q <= pix im p) /\
   outside_margin (shape im) mg p).
Proof. exact gen_maxima_exact. Qed.
Print Assumptions C06_gen_maxima_exact.

Theorem C06_gen_maxima_nodup :
  forall np_percentile percentile is_float im0 sep margin,
  Forall (fun s => (0 <= s)%Q) sep ->
  NoDup (Gen.find.grey_dilation np_percentile is_float im0 sep percentile margin false).
Proof. exact gen_maxima_nodup. Qed.
Print Assumptions C06_gen_maxima_nodup.

(* C06_precise_subset / _separated / _justified for the generated grey_dilation *)
Theorem C06_gen_precise_subset :
  forall np_percentile percentile is_float im0 sep margin p,
  Forall (fun s => (0 <= s)%Q) sep ->
  In p (Gen.find.grey_dilation np_percentile is_float im0 sep percentile margin true) ->
  In p (Gen.find.grey_dilation np_percentile is_float im0 sep percentile margin false).
Proof. exact gen_precise_subset. Qed.
Print Assumptions C06_gen_precise_subset.

Theorem C06_gen_precise_separated :
  forall np_percentile percentile is_float im0 sep margin,
  Forall (fun s => (0 < s)%Q) sep ->
  forall p q,
  In p (Gen.find.grey_dilation np_percentile is_float im0 sep percentile margin true) ->
  In q (Gen.find.grey_dilation np_percentile is_float im0 sep percentile margin true) ->
  p <> q -> ~ closer_than_sep sep (map inject_Z p) (map inject_Z q).
Proof. exact gen_precise_separated. Qed.
Print Assumptions C06_gen_precise_separated.

Theorem C06_gen_precise_justified :
  forall np_percentile percentile is_float im0 sep margin,
  Forall (fun s => (0 < s)%Q) sep ->
  forall p,
  In p (Gen.find.grey_dilation np_percentile is_float im0 sep percentile margin false) ->
  ~ In p (Gen.find.grey_dilation np_percentile is_float im0 sep percentile margin true) ->
  exists q, In q (Gen.find.grey_dilation np_percentile is_float im0 sep percentile margin false) /\ q <> p /\
            closer_than_sep sep (map inject_Z q) (map inject_Z p) /\
            pix (convert_to_int is_float im0) p <= pix (convert_to_int is_float im0) q.
Proof. exact gen_precise_justified. Qed.
Print Assumptions C06_gen_precise_justified.

(* C06_where_close_exact / C06_drop_close_exact for the generated functions on float rows *)
Theorem C06_gen_where_close_exact :
  forall (pos_is_frame : bool) (pos : list (list Q)) (sep : list Q) (intensity : option (list Z)),
  Forall (fun s => ~ (s == 0)%Q) sep ->
  forall k,
  In k (Gen.find.where_close (fun p => p) pos_is_frame pos sep intensity) <->
  (k < length pos)%nat /\
  exists j, (j < length pos)%nat /\ j <> k /\
            closer_than_sep sep (nth j pos []) (nth k pos []) /\
            ((inten_of intensity k < inten_of intensity j) \/
             (inten_of intensity j = inten_of intensity k /\
              ((total (rescale_pos (nth k pos []) sep) < total (rescale_pos (nth j pos []) sep))%Q \/
               ((total (rescale_pos (nth j pos []) sep) == total (rescale_pos (nth k pos []) sep))%Q /\ (k < j)%nat)))).
Proof. exact gen_where_close_spec. Qed.
Print Assumptions C06_gen_where_close_exact.

Theorem C06_gen_drop_close_exact :
  forall (pos_is_frame : bool) (pos : list (list Q)) sep intensity x,
  In x (Gen.find.drop_close (fun p => p) pos_is_frame pos sep intensity) <->
  exists i, nth_error pos i = Some x /\
            ~ In i (Gen.find.where_close (fun p => p) pos_is_frame pos sep intensity).
Proof. exact gen_drop_close_exact. Qed.
Print Assumptions C06_gen_drop_close_exact.

(* non-vacuity: the generated code runs; on the example image it returns what the examples above show
   (np.percentile stubbed by the constant 1; separation 1.5 is non-negative, box 2x2 >= 1) *)
Example C06_gen_ex :
  Gen.find.grey_dilation (fun _ _ => (1 # 1)%Q) false ex_img [3 # 2; 3 # 2]%Q (64 # 1)%Q (Some [0; 0]) false
    = [[1; 1]; [1; 3]; [2; 3]] /\
  Gen.find.grey_dilation (fun _ _ => (1 # 1)%Q) false ex_img [3 # 2; 3 # 2]%Q (64 # 1)%Q None true
    = [[1; 1]; [1; 3]] /\
  Gen.find.grey_dilation (fun _ _ => (60 # 1)%Q) true ex_img [3 # 2; 3 # 2]%Q (64 # 1)%Q (Some [2; 2]) true = [] /\
  Gen.find.where_close (fun p => p) false [[1#1; 2#1]; [2#1; 1#1]]%Q [2#1; 2#1]%Q (Some [4; 4]) = [0%nat] /\
  Gen.find.percentile_threshold (fun _ q => q) {| shape := [2]; data := Node [Leaf 0; Leaf 0] |} (64 # 1)%Q = None /\
  Forall (fun s => (0 < s)%Q) [3 # 2; 3 # 2]%Q.
Proof. vm_compute. repeat split; try reflexivity; repeat constructor. Qed.
