(* C01 — linking returns a valid labelling and preserves the caller's rows. *)
From Coq Require Import ZArith NArith List Permutation.
From TP Require Import Model.Assign Model.Link Model.LinkTable Model.CoordsFromDf
     Model.LinkCheck Proofs.Cands Proofs.Labels Proofs.LinkTable Proofs.CoordsFromDf Proofs.Trajectory.
Import ListNotations.
Open Scope Z_scope.

(* One step, from any reachable state (state_ok: live labels distinct and < next_id,
   every live source last seen at most memory+1 steps ago): every feature of the new
   frame gets exactly one label, labels are pairwise distinct, a label is either
   fresh (>= all ids handed out so far) or continues a live source whose (predicted)
   position is within range - so consecutive observations of a trajectory are at
   most memory+1 steps and (without predictor) at most search_range apart - and
   the new state is again ok. *)
Theorem C01_step_valid : forall m mem max_size pred st ds st' labs,
  metric_ok m -> state_ok mem st ->
  link_step m mem max_size pred st ds = Ok (st', labs) ->
  state_ok mem st' /\ length labs = length ds /\ NoDup labs /\
  (next_id st <= next_id st')%nat /\ Forall (fun lb => (lb < next_id st')%nat) labs /\
  now st' = S (now st) /\
  (forall j lb, nth_error labs j = Some lb ->
     (next_id st <= lb)%nat \/
     exists s q, In s (live st) /\ s_lab s = lb /\ nth_error ds j = Some q /\
                 d2w (mw m) (pred (now st) s) q <= mR2 m).
Proof. exact link_step_valid. Qed.
Print Assumptions C01_step_valid.

(* Whole runs of link_iter, any number of frames (empty frames included), any memory. *)
Theorem C01_labels_valid : forall m mem max_size pred frames out,
  metric_ok m -> link_iter m mem max_size pred frames = Ok out ->
  Forall2 (fun ds labs => length labs = length ds /\ NoDup labs) frames out.
Proof. exact link_iter_valid. Qed.
Print Assumptions C01_labels_valid.

(* link's table adapter hands every input row to the linker exactly once (frames
   missing from the table are empty steps) and returns exactly the input rows. *)
Theorem C01_rows_preserved : forall m mem max_size rows out,
  metric_ok m -> link_table m mem max_size rows = Ok out ->
  Permutation (map fst out) rows /\ length out = length rows.
Proof. exact link_table_rows. Qed.
Print Assumptions C01_rows_preserved.

Theorem C01_missing_frames_are_steps : forall rows n t k fr r,
  nth_error (frames_from t n rows) k = Some fr -> In r fr -> r_frame r = t + Z.of_nat k.
Proof. exact frames_from_frame. Qed.
Print Assumptions C01_missing_frames_are_steps.

(* coords_from_df as the code computes it (stable argsort, np.unique / np.split runs,
   walk over range(first, last+1) with an index into the runs) hands the linker, for
   every frame number from the smallest to the largest, exactly the rows of that frame
   in input order - empty steps for missing numbers. *)
Theorem C01_coords_from_df : forall rows, coords_from_df rows = table_frames rows.
Proof. exact coords_from_df_spec. Qed.
Print Assumptions C01_coords_from_df.

(* Trajectory level, on the implementation's own output: whenever the executable monitor
   accepts the labels produced for a movie (this is what every run of the check evaluates
   on trackpy's output, no predictor), then - for the whole movie, any length - every
   frame carries one label per feature without repetition, and ANY two consecutive
   observations of one label (no observation of it in between) are at most memory+1
   frames apart and at most search_range apart (weighted metric: per-axis ranges define
   an ellipsoid).  A label that is not continued from a live source must be brand new,
   so a trajectory can never be resumed after more than memory missed frames. *)
Theorem C01_monitor_sound_trajectories : forall m mem max_size frames out,
  check_run m mem max_size no_pred frames (map Labels out) = 0%N ->
  Forall2 (fun ds labs => length labs = length ds /\ NoDup labs) frames out /\
  forall t1 t2 j1 j2 L p1 p2, (t1 < t2)%nat ->
    occ frames out t1 j1 L p1 -> occ frames out t2 j2 L p2 ->
    (forall u, (t1 < u < t2)%nat -> ~ occurs out u L) ->
    (t2 - t1 <= mem + 1)%nat /\ d2w (mw m) p1 p2 <= mR2 m.
Proof. exact check_run_trajectories. Qed.
Print Assumptions C01_monitor_sound_trajectories.

(* non-vacuity: the initial state of any first frame is ok *)
Example C01_init_ok : forall mem ds, state_ok mem (fst (init_state ds)).
Proof. intros mem ds. exact (proj1 (init_state_ok mem ds)). Qed.
