(* C01 — linking returns a valid labelling and preserves the caller's rows. *)
From Coq Require Import ZArith NArith List Permutation.
From TP Require Import Model.Assign Model.Link Model.LinkTable Model.CoordsFromDf
     Model.LinkCheck Proofs.Cands Proofs.Labels Proofs.LinkTable Proofs.CoordsFromDf Proofs.Trajectory.
Import ListNotations.
Open Scope Z_scope.

(* One step, from any reachable state (state_ok: live labels distinct and < next_id,
   every live source last seen at most memory+1 steps ago): every feature of the new
   frame gets exactly one label, labels are pairwise distinct, a label is either
   fresh (>= all ids handed out so far) or continues a live source whose (predicted)
   position is within range - so consecutive observations of a trajectory are at
   most memory+1 steps and (without predictor) at most search_range apart - and
   the new state is again ok. *)
Theorem C01_step_valid : forall m mem max_size pred st ds st' labs,
  metric_ok m -> state_ok mem st ->
  link_step m mem max_size pred st ds = Ok (st', labs) ->
  state_ok mem st' /\ length labs = length ds /\ NoDup labs /\
  (next_id st <= next_id st')%nat /\ Forall (fun lb => (lb < next_id st')%nat) labs /\
  now st' = S (now st) /\
  (forall j lb, nth_error labs j = Some lb ->
     (next_id st <= lb)%nat \/
     exists s q, In s (live st) /\ s_lab s = lb /\ nth_error ds j = Some q /\
                 d2w (mw m) (pred (now st) s) q <= mR2 m).
Proof. exact link_step_valid. Qed.
Print Assumptions C01_step_valid.

(* Whole runs of link_iter, any number of frames (empty frames included), any memory. *)
Theorem C01_labels_valid : forall m mem max_size pred frames out,
  metric_ok m -> link_iter m mem max_size pred frames = Ok out ->
  Forall2 (fun ds labs => length labs = length ds /\ NoDup labs) frames out.
Proof. exact link_iter_valid. Qed.
Print Assumptions C01_labels_valid.

(* link's table adapter hands every input row to the linker exactly once (frames
   missing from the table are empty steps) and returns exactly the input rows. *)
Theorem C01_rows_preserved : forall m mem max_size rows out,
  metric_ok m -> link_table m mem max_size rows = Ok out ->
  Permutation (map fst out) rows /\ length out = length rows.
Proof. exact link_table_rows. Qed.
Print Assumptions C01_rows_preserved.

Theorem C01_missing_frames_are_steps : forall rows n t k fr r,
  nth_error (frames_from t n rows) k = Some fr -> In r fr -> r_frame r = t + Z.of_nat k.
Proof. exact frames_from_frame. Qed.
Print Assumptions C01_missing_frames_are_steps.

(* coords_from_df as the code computes it (stable argsort, np.unique / np.split runs,
   walk over range(first, last+1) with an index into the runs) hands the linker, for
   every frame number from the smallest to the largest, exactly the rows of that frame
   in input order - empty steps for missing numbers. *)
Theorem C01_coords_from_df : forall rows, coords_from_df rows = table_frames rows.
Proof. exact coords_from_df_spec. Qed.
Print Assumptions C01_coords_from_df.

(* Trajectory level, on the implementation's own output: whenever the executable monitor
   accepts the labels produced for a movie (this is what every run of the check evaluates
   on trackpy's output, no predictor), then - for the whole movie, any length - every
   frame carries one label per feature without repetition, and ANY two consecutive
   observations of one label (no observation of it in between) are at most memory+1
   frames apart and at most search_range apart (weighted metric: per-axis ranges define
   an ellipsoid).  A label that is not continued from a live source must be brand new,
   so a trajectory can never be resumed after more than memory missed frames. *)
Theorem C01_monitor_sound_trajectories : forall m mem max_size frames out,
  check_run m mem max_size no_pred frames (map Labels out) = 0%N ->
  Forall2 (fun ds labs => length labs = length ds /\ NoDup labs) frames out /\
  forall t1 t2 j1 j2 L p1 p2, (t1 < t2)%nat ->
    occ frames out t1 j1 L p1 -> occ frames out t2 j2 L p2 ->
    (forall u, (t1 < u < t2)%nat -> ~ occurs out u L) ->
    (t2 - t1 <= mem + 1)%nat /\ d2w (mw m) p1 p2 <= mR2 m.
Proof. exact check_run_trajectories. Qed.
Print Assumptions C01_monitor_sound_trajectories.

(* non-vacuity: the initial state of any first frame is ok *)
Example C01_init_ok : forall mem ds, state_ok mem (fst (init_state ds)).
Proof. intros mem ds. exact (proj1 (init_state_ok mem ds)). Qed.

(* ===== Route T: the table plumbing GENERATED from the current source =====================
   Gen/coords.v is produced by tools/py2coq_coords.py from trackpy/linking/utils.py
   (coords_from_df, coords_from_df_iter) and trackpy/linking/linking.py (link_iter, link,
   link_df_iter) on every run of the check.  Vocabulary and conventions: Model/PyCoords.v
   (DataFrame = column labels + rows with an identity and numeric cells; generators are the
   lists they yield; [model_linker m mem max_size] interprets the Linker class by the step
   machine of Model/Link.v, the one the theorems above are about).  The statements below are
   proved about the generated functions themselves (Proofs/CoordsGen.v). *)
From Coq Require Import String.
From TP Require Import Model.PyCoords Model.LinkTable2 Gen.coords Proofs.CoordsGen.

(* generated coords_from_df = the model: for a non-empty table with the columns it reads, it
   yields, for every frame number from the smallest to the largest, that number and the positions
   of the rows of that frame in input order (empty for missing numbers) *)
Theorem C01_generated_coords_from_df : forall f pc tc,
  has_col tc f = true -> has_cols pc f = true -> df_rows f <> [] ->
  let rows := rows_of pc tc f in
  py_coords_from_df f pc tc = ROk (combine (table_times rows) (map (map r_pos) (table_frames rows))).
Proof. exact py_coords_from_df_eq. Qed.
Print Assumptions C01_generated_coords_from_df.

(* .. and an empty table makes it raise IndexError (unique_times[0]) *)
Theorem C01_generated_coords_from_df_empty : forall f pc tc,
  has_col tc f = true -> has_cols pc f = true -> df_rows f = [] -> py_coords_from_df f pc tc = RRaise EIndexError.
Proof. exact py_coords_from_df_empty. Qed.
Print Assumptions C01_generated_coords_from_df_empty.

(* generated coords_from_df_iter: one (frame number of the first row | None, positions) per DataFrame *)
Theorem C01_generated_coords_from_df_iter : forall pc tc dfs, forallb (has_cols (tc :: pc)) dfs = true ->
  py_coords_from_df_iter (ROk dfs) pc tc = ROk (map (fun d => (first_t tc d, pos_of pc d)) dfs).
Proof. exact py_coords_from_df_iter_eq. Qed.
Print Assumptions C01_generated_coords_from_df_iter.

(* generated link_iter over the model Linker = Model/Link.v's link_iter, for an iterable of
   (t, coords) tuples and for an iterable of bare arrays (numbered 0, 1, 2, ..) *)
Theorem C01_generated_link_iter_tuples : forall m mem max_size (items : list (option Z * coords)), items <> [] ->
  py_link_iter (model_linker m mem max_size) (ROk (map item_of_pair items)) =
  match link_iter m mem max_size no_pred (map snd items) with
  | Oversize => RRaise EOversize
  | Ok labs => ROk (combine (map fst items) (zlabs labs))
  end.
Proof. exact py_link_iter_tuples. Qed.
Print Assumptions C01_generated_link_iter_tuples.

Theorem C01_generated_link_iter_arrays : forall m mem max_size (frames : list coords), frames <> [] ->
  py_link_iter (model_linker m mem max_size) (ROk (map IArr frames)) =
  match link_iter m mem max_size no_pred frames with
  | Oversize => RRaise EOversize
  | Ok labs => ROk (combine (enum_times (List.length frames)) (zlabs labs))
  end.
Proof. exact py_link_iter_arrays. Qed.
Print Assumptions C01_generated_link_iter_arrays.

(* generated link = link_table (Model/LinkTable.v): whenever the model's adapter returns rows paired
   with labels, the generated link returns a table g whose rows are, in this order, the caller's rows
   stably sorted by the frame column (same identities, every cell other than 'particle' unchanged),
   which are exactly the rows link_table returns, with link_table's labels in column 'particle';
   an oversize subnet in the model is SubnetOversizeException in the generated code.
   pos_columns=None: guessed from the table's columns. *)
Theorem C01_generated_link : forall m mem max_size f pcs tc,
  metric_ok m ->
  let pc := match pcs with Some v => v | None => guess_pos_columns f end in
  has_col tc f = true -> has_cols pc f = true -> df_rows f <> [] -> ~ In "particle"%string (tc :: pc) ->
  let S := isort_k (cell tc) (df_rows f) in
  match link_table m mem max_size (rows_of pc tc f) with
  | Oversize => py_link (model_linker m mem max_size) f pcs tc = RRaise EOversize
  | Ok out => exists g, py_link (model_linker m mem max_size) f pcs tc = ROk g /\
      map fst out = map (row_of pc tc) S /\
      map (row_of pc tc) (df_rows g) = map fst out /\
      map d_id (df_rows g) = map d_id S /\
      (forall c, c <> "particle"%string -> map (cell c) (df_rows g) = map (cell c) S) /\
      map (cell "particle") (df_rows g) = map Z.of_nat (map snd out)
  end.
Proof. exact py_link_eq. Qed.
Print Assumptions C01_generated_link.

(* generated link_df_iter = one labelled copy per DataFrame, labels from Model/Link.v's link_iter on
   the per-DataFrame positions; pos_columns=None: guessed from the FIRST DataFrame of the iterable *)
Theorem C01_generated_link_df_iter : forall m mem max_size dfs pcs tc, dfs <> [] ->
  let pc := match pcs with Some v => v | None => guess_pos_columns (hd {| df_columns := []; df_float := []; df_rows := [] |} dfs) end in
  forallb (has_cols (tc :: pc)) dfs = true ->
  py_link_df_iter (model_linker m mem max_size) (ROk dfs) pcs tc = link_df_iter_model m mem max_size pc dfs.
Proof. exact py_link_df_iter_eq. Qed.
Print Assumptions C01_generated_link_df_iter.

(* C01_labels_valid for the generated link_iter: one label per feature, no label twice in a frame *)
Theorem C01_generated_labels_valid : forall m mem max_size (frames : list coords) out,
  metric_ok m -> frames <> [] -> py_link_iter (model_linker m mem max_size) (ROk (map IArr frames)) = ROk out ->
  exists labs, out = combine (enum_times (List.length frames)) (zlabs labs) /\
               Forall2 (fun ds lb => List.length lb = List.length ds /\ NoDup lb) frames labs.
Proof. exact gen_link_iter_valid. Qed.
Print Assumptions C01_generated_labels_valid.

(* C01_rows_preserved for the generated link: the returned rows are a permutation of the caller's rows
   (the stable sort by frame), cells unchanged, and they are the concatenation of the frames handed to
   the linker, labelled by the concatenation of per-frame label lists without repetition *)
Theorem C01_generated_rows_preserved : forall m mem max_size f pcs tc g,
  metric_ok m ->
  let pc := match pcs with Some v => v | None => guess_pos_columns f end in
  has_col tc f = true -> has_cols pc f = true -> df_rows f <> [] -> ~ In "particle"%string (tc :: pc) ->
  py_link (model_linker m mem max_size) f pcs tc = ROk g ->
  let S := isort_k (cell tc) (df_rows f) in
  Permutation (map d_id (df_rows g)) (map d_id (df_rows f)) /\ List.length (df_rows g) = List.length (df_rows f) /\
  map d_id (df_rows g) = map d_id S /\
  (forall c, c <> "particle"%string -> map (cell c) (df_rows g) = map (cell c) S) /\
  exists labs, Forall2 (fun ds lb => List.length lb = List.length ds /\ NoDup lb) (map (map r_pos) (table_frames (rows_of pc tc f))) labs /\
               map (row_of pc tc) (df_rows g) = List.concat (table_frames (rows_of pc tc f)) /\
               map (cell "particle") (df_rows g) = map Z.of_nat (List.concat labs).
Proof. exact gen_link_valid. Qed.
Print Assumptions C01_generated_rows_preserved.

(* .. and for the generated link_df_iter: every yielded table is its input table (identities, cells)
   plus a 'particle' column of pairwise different non-negative labels *)
Theorem C01_generated_link_df_iter_valid : forall m mem max_size dfs pcs tc outs,
  metric_ok m -> dfs <> [] ->
  let pc := match pcs with Some v => v | None => guess_pos_columns (hd {| df_columns := []; df_float := []; df_rows := [] |} dfs) end in
  forallb (has_cols (tc :: pc)) dfs = true ->
  py_link_df_iter (model_linker m mem max_size) (ROk dfs) pcs tc = ROk outs ->
  Forall2 (fun d g =>
    map d_id (df_rows g) = map d_id (df_rows d) /\
    (forall c, c <> "particle"%string -> map (cell c) (df_rows g) = map (cell c) (df_rows d)) /\
    NoDup (map (cell "particle") (df_rows g)) /\ Forall (fun v => 0 <= v) (map (cell "particle") (df_rows g))) dfs outs.
Proof. exact gen_link_df_iter_valid. Qed.
Print Assumptions C01_generated_link_df_iter_valid.

(* non-vacuity: a two-row table with a gap, linked by the generated link with a real metric *)
Example C01_generated_link_example :
  let f := {| df_columns := ["x"; "frame"]%string; df_float := ["frame"%string];
              df_rows := [ {| d_id := 0; d_cells := [("x"%string, 7); ("frame"%string, 3)] |};
                           {| d_id := 1; d_cells := [("x"%string, 5); ("frame"%string, 1)] |} ] |} in
  option_map (fun g => (map d_id (df_rows g), map (cell "particle") (df_rows g), map (cell "frame") (df_rows g)))
    (match py_link (model_linker {| mw := [1]; mR2 := 9 |} 0 30) f (Some ["x"%string]) "frame"%string with ROk g => Some g | RRaise _ => None end)
  = Some ([1%nat; 0%nat], [0; 1], [1; 3]).
Proof. vm_compute. reflexivity. Qed.

(* ===== The sort inside link is NOT stable: the generated link for an arbitrary sort oracle ==========
   trackpy.link sorts its copy of the table with pandas_sort(f, t_column, inplace=True), which is
   DataFrame.sort_values with pandas' default kind (quicksort): rows with the same frame number may come
   back in any order.  C01_generated_link / C01_generated_rows_preserved above are about py_link, in which
   that sort is read as the stable one.  Gen/coords.v also contains py_link_srt: the same statements of
   link, translated by the same run of the translator, with the sort as a parameter
        srt : sort_oracle  =  (drow -> Z) -> list drow -> list drow        (key of a row, rows) |-> rows
   of which the theorems below assume ONLY (Model/SortOracle.v)
        sort_ok srt  :=  forall key l, Permutation (srt key l) l /\ sorted_by key (srt key l)
        sorted_by key l : every element's key is <= the keys of all elements after it.
   coerce_frame tc f r is link's `f[t_column] = f[t_column].astype(np.int64)` on one row (the cell is
   re-written with its own value when the column's dtype is not an integer type; otherwise r itself). *)
From TP Require Import Model.SortOracle Proofs.CoordsGen2.

(* the hypothesis is satisfiable: by the stable sort, and by sorts that are not stable (equal keys come
   back reversed / ordered by descending identity) *)
Theorem C01_sort_oracles_ok : sort_ok stable_sort /\ sort_ok reversing_sort /\ sort_ok id_desc_sort.
Proof. exact (conj stable_sort_ok (conj reversing_sort_ok id_desc_sort_ok)). Qed.
Print Assumptions C01_sort_oracles_ok.

(* py_link (all theorems above) is the instance srt := stable_sort of py_link_srt *)
Theorem C01_generated_link_is_stable_instance : forall L f pcs tc,
  py_link L f pcs tc = py_link_srt stable_sort L f pcs tc.
Proof. exact py_link_is_stable_instance. Qed.
Print Assumptions C01_generated_link_is_stable_instance.

(* generated link, EVERY sort oracle with sort_ok: there is an order S of the caller's rows - a permutation
   of them, ordered by the frame column, and it is the order the oracle chose (up to the frame coercion of
   the cells) - such that link behaves as Model/LinkTable.v's link_table on the rows in that order: the
   returned table g has the rows S in this order (same identities, every cell other than 'particle'
   unchanged), row k carries the label link_table gives to row k (the labels stay with their rows: the
   second, stable sort inside coords_from_df finds the table ordered and changes nothing), an oversize
   subnet in the model is SubnetOversizeException. *)
Theorem C01_generated_link_any_sort : forall m mem max_size srt f pcs tc,
  sort_ok srt -> metric_ok m ->
  let pc := match pcs with Some v => v | None => guess_pos_columns f end in
  has_col tc f = true -> has_cols pc f = true -> df_rows f <> [] -> ~ In "particle"%string (tc :: pc) ->
  exists S, Permutation S (df_rows f) /\ sorted_by (cell tc) S /\
    map (coerce_frame tc f) S = srt (cell tc) (map (coerce_frame tc f) (df_rows f)) /\
    match link_table m mem max_size (map (row_of pc tc) S) with
    | Oversize => py_link_srt srt (model_linker m mem max_size) f pcs tc = RRaise EOversize
    | Ok out => exists g, py_link_srt srt (model_linker m mem max_size) f pcs tc = ROk g /\
        map fst out = map (row_of pc tc) S /\
        map (row_of pc tc) (df_rows g) = map fst out /\
        map d_id (df_rows g) = map d_id S /\
        (forall c, c <> "particle"%string -> map (cell c) (df_rows g) = map (cell c) S) /\
        map (cell "particle") (df_rows g) = map Z.of_nat (map snd out)
    end.
Proof. exact py_link_srt_eq. Qed.
Print Assumptions C01_generated_link_any_sort.

(* C01's statement for the generated link, EVERY sort oracle with sort_ok.  Whenever a table g is returned:
   the rows of g are a permutation S of the caller's rows (identities), ordered by the frame column, every
   cell other than 'particle' as the caller gave it - only the particle column is added;
   the frames handed to the linker (one per frame number from the smallest to the largest, empty for
   missing numbers) are the caller's frames up to the order WITHIN each frame - the only thing the oracle
   decides; the rows of g are those frames concatenated and the particle column is the concatenation of
   per-frame label lists in the same order (each row carries the label the linker gave to its own
   position), one label per row of a frame and no label twice in a frame.
   NOT invariant under the order within a frame (and not claimed): the integer a trajectory starting in a
   frame is named by (fresh ids follow the order of the frame's rows) and the choice between candidate
   linkings of equal total cost. *)
Theorem C01_generated_rows_preserved_any_sort : forall m mem max_size srt f pcs tc g,
  sort_ok srt -> metric_ok m ->
  let pc := match pcs with Some v => v | None => guess_pos_columns f end in
  has_col tc f = true -> has_cols pc f = true -> df_rows f <> [] -> ~ In "particle"%string (tc :: pc) ->
  py_link_srt srt (model_linker m mem max_size) f pcs tc = ROk g ->
  exists S, Permutation S (df_rows f) /\ sorted_by (cell tc) S /\
    map (coerce_frame tc f) S = srt (cell tc) (map (coerce_frame tc f) (df_rows f)) /\
    map d_id (df_rows g) = map d_id S /\
    (forall c, c <> "particle"%string -> map (cell c) (df_rows g) = map (cell c) S) /\
    Permutation (map d_id (df_rows g)) (map d_id (df_rows f)) /\ List.length (df_rows g) = List.length (df_rows f) /\
    sorted_by (cell tc) (df_rows g) /\
    let frs := table_frames (map (row_of pc tc) S) in
    Forall2 (@Permutation row) frs (table_frames (rows_of pc tc f)) /\
    exists labs, Forall2 (fun ds lb => List.length lb = List.length ds /\ NoDup lb) (map (map r_pos) frs) labs /\
                 map (row_of pc tc) (df_rows g) = List.concat frs /\
                 map (cell "particle") (df_rows g) = map Z.of_nat (List.concat labs).
Proof. exact gen_link_srt_valid. Qed.
Print Assumptions C01_generated_rows_preserved_any_sort.

(* .. read on the returned table itself: every label is a non-negative integer and two different rows with
   the same frame number never carry the same label - whatever the sort did within the frames *)
Theorem C01_generated_labels_distinct_any_sort : forall m mem max_size srt f pcs tc g,
  sort_ok srt -> metric_ok m ->
  let pc := match pcs with Some v => v | None => guess_pos_columns f end in
  has_col tc f = true -> has_cols pc f = true -> df_rows f <> [] -> ~ In "particle"%string (tc :: pc) ->
  py_link_srt srt (model_linker m mem max_size) f pcs tc = ROk g ->
  Forall (fun r => 0 <= cell "particle" r) (df_rows g) /\
  forall i j ri rj, nth_error (df_rows g) i = Some ri -> nth_error (df_rows g) j = Some rj -> i <> j ->
    cell tc ri = cell tc rj -> cell "particle" ri <> cell "particle" rj.
Proof. exact gen_link_srt_labels_distinct. Qed.
Print Assumptions C01_generated_labels_distinct_any_sort.

(* the frames of a table (Model/LinkTable.v) depend on the order of its rows only through the order within
   each frame: same frame numbers, same rows per frame *)
Theorem C01_frames_up_to_order_within_frame : forall rows rows',
  Permutation rows rows' -> Forall2 (@Permutation row) (table_frames rows) (table_frames rows').
Proof. exact table_frames_frames_perm. Qed.
Print Assumptions C01_frames_up_to_order_within_frame.

(* the old statement about the stable order, as the instance srt := stable_sort of the parametrised link *)
Theorem C01_generated_link_stable_instance : forall m mem max_size f pcs tc,
  metric_ok m ->
  let pc := match pcs with Some v => v | None => guess_pos_columns f end in
  has_col tc f = true -> has_cols pc f = true -> df_rows f <> [] -> ~ In "particle"%string (tc :: pc) ->
  let S := stable_sort (cell tc) (df_rows f) in
  match link_table m mem max_size (rows_of pc tc f) with
  | Oversize => py_link_srt stable_sort (model_linker m mem max_size) f pcs tc = RRaise EOversize
  | Ok out => exists g, py_link_srt stable_sort (model_linker m mem max_size) f pcs tc = ROk g /\
      map fst out = map (row_of pc tc) S /\
      map (row_of pc tc) (df_rows g) = map fst out /\
      map d_id (df_rows g) = map d_id S /\
      (forall c, c <> "particle"%string -> map (cell c) (df_rows g) = map (cell c) S) /\
      map (cell "particle") (df_rows g) = map Z.of_nat (map snd out)
  end.
Proof. exact py_link_eq. Qed.
Print Assumptions C01_generated_link_stable_instance.

(* non-vacuity, with an order within a frame that no stable sort produces: two rows in frame 0, two in
   frame 1.  The stable sort returns the identities 0 1 | 2 3, the reversing oracle 1 0 | 3 2.  Either way
   the labels follow the rows: the same two trajectories {0, 3} and {1, 2} - but they are NAMED the other
   way round, because fresh ids follow the order of the rows of frame 0. *)
Example C01_generated_link_unstable_example :
  let f := {| df_columns := ["x"; "frame"]%string; df_float := ["frame"%string];
              df_rows := [ {| d_id := 0; d_cells := [("x"%string, 1); ("frame"%string, 0)] |};
                           {| d_id := 1; d_cells := [("x"%string, 10); ("frame"%string, 0)] |};
                           {| d_id := 2; d_cells := [("x"%string, 11); ("frame"%string, 1)] |};
                           {| d_id := 3; d_cells := [("x"%string, 2); ("frame"%string, 1)] |} ] |} in
  let run srt :=
    option_map (fun g => (map d_id (df_rows g), map (cell "particle") (df_rows g), map (cell "frame") (df_rows g), map (cell "x") (df_rows g)))
      (match py_link_srt srt (model_linker {| mw := [1]; mR2 := 9 |} 0 30) f (Some ["x"%string]) "frame"%string with ROk g => Some g | RRaise _ => None end) in
  run stable_sort    = Some ([0%nat; 1%nat; 2%nat; 3%nat], [0; 1; 1; 0], [0; 0; 1; 1], [1; 10; 11; 2]) /\
  run reversing_sort = Some ([1%nat; 0%nat; 3%nat; 2%nat], [0; 1; 1; 0], [0; 0; 1; 1], [10; 1; 2; 11]).
Proof. vm_compute. split; reflexivity. Qed.
