(* C10 — bandpass is the documented filter and nothing else.
   Only statements closed by [exact]; proofs live in Proofs/Bandpass.v (2-D) and
   Proofs/Bandpass3.v (3-D; documented3 / difference3 in Model/BandpassSpec3.v are the
   same formulas with triple sums).
   Model: Model/Bandpass.v (trackpy.preprocessing.{lowpass,boxcar,bandpass} and
   masks.gaussian_kernel as separable passes over nested lists).
   Declarative side: Model/BandpassSpec.v, where
     documented2 H W truncate ls_y ls_x E_y E_x ll_y ll_x thr im i j
       = let d := (sum_{a=-ly..ly} sum_{b=-lx..lx} g_y(a) g_x(b) im0(i+a, j+b))
                  - (sum_{a=-by..by} sum_{b=-bx..bx} imE(i+a, j+b)) / ((2by+1)(2bx+1))
         in if thr <= d then d else 0
     l = floor(truncate*lshort + 1/2) (0 when lshort <= 0), g(x) = E(|x|) / sum_{y=-l..l} E(|y|)
     (1 when lshort <= 0), b = (llong-1)/2, im0 = image continued by zeros,
     imE = image continued by repeating its edge pixels, E = table of exp(-n^2/(2 lshort^2)). *)
From Coq Require Import ZArith QArith List Lia.
From TP Require Import Model.Bandpass Model.BandpassSpec Model.BandpassSpec3 Proofs.Bandpass Proofs.Bandpass3.
Import ListNotations.
Open Scope Q_scope.

(* pointwise definition + shape: whenever bandpass returns an image for an H x W
   input, the result is H x W and every pixel is the documented value (the two
   Gaussian passes and the two boxcar passes compose to the nested sums). *)
Theorem C10_pointwise_2d : forall (H W : nat) (truncate : Q) (py px : axis_par),
  0 <= truncate -> (1 <= size py)%Z -> (1 <= size px)%Z ->
  forall (threshold : Q) (image out : img2),
  rect2 H W image -> bandpass2 truncate py px threshold image = Ok out ->
  rect2 H W out /\
  forall i j, (0 <= i < Z.of_nat H)%Z -> (0 <= j < Z.of_nat W)%Z ->
    px2 out i j == documented2 H W truncate (sigma py) (sigma px) (expo py) (expo px)
                               (size py) (size px) threshold image i j.
Proof. exact bandpass2_pointwise. Qed.
Print Assumptions C10_pointwise_2d.

(* "convolved with the ... Gaussian": the weights are even, so the correlation
   in [smooth2] is the convolution; and the weights sum to one. *)
Theorem C10_convolution_2d : forall H W t sy sx Ey Ex im i j,
  smooth2 H W (gauss_hw t sy) (gauss_hw t sx) (gauss_w t sy Ey) (gauss_w t sx Ex) im i j ==
  Qsum_sym (gauss_hw t sy) (fun a => Qsum_sym (gauss_hw t sx) (fun b =>
    gauss_w t sy Ey a * gauss_w t sx Ex b * zero_ext2 H W im (i - a) (j - b))).
Proof. exact smooth2_convolution. Qed.
Print Assumptions C10_convolution_2d.

Theorem C10_kernel_normalised : forall t s E,
  ~ Qsum_sym (gauss_hw t s) (gtab E) == 0 -> Qsum_sym (gauss_hw t s) (gauss_w t s E) == 1.
Proof. exact gauss_w_normalised. Qed.
Print Assumptions C10_kernel_normalised.

(* the model's gaussian_kernel (int(truncate*sigma+0.5), arange, normalise) IS that
   kernel: 2l+1 weights, the one at offset x from the centre is g(x) *)
Theorem C10_kernel_is_gaussian : forall (t : Q) (p : axis_par),
  0 <= t -> Qle_bool (sigma p) 0 = false ->
  length (kern t p) = Z.to_nat (2 * gauss_hw t (sigma p) + 1) /\
  forall x, (- gauss_hw t (sigma p) <= x <= gauss_hw t (sigma p))%Z ->
    kf (kern t p) x == gauss_w t (sigma p) (expo p) x.
Proof. exact kern_is_gaussian. Qed.
Print Assumptions C10_kernel_is_gaussian.

(* never negative - exact condition: a pixel is 0 or >= threshold; with a
   non-negative threshold nothing is negative; a pixel is negative exactly when the
   unclipped difference d satisfies threshold <= d < 0. *)
Theorem C10_sign_2d : forall (H W : nat) (truncate : Q) (py px : axis_par),
  0 <= truncate -> (1 <= size py)%Z -> (1 <= size px)%Z ->
  forall threshold image out i j,
  rect2 H W image -> bandpass2 truncate py px threshold image = Ok out ->
  (0 <= i < Z.of_nat H)%Z -> (0 <= j < Z.of_nat W)%Z ->
  (px2 out i j == 0 \/ threshold <= px2 out i j) /\
  (0 <= threshold -> 0 <= px2 out i j) /\
  (px2 out i j < 0 <->
     threshold <= difference2 H W truncate (sigma py) (sigma px) (expo py) (expo px) (size py) (size px) image i j /\
     difference2 H W truncate (sigma py) (sigma px) (expo py) (expo px) (size py) (size px) image i j < 0).
Proof. exact bandpass2_sign. Qed.
Print Assumptions C10_sign_2d.

(* scaling image and threshold by c > 0 scales the result by c *)
Theorem C10_homogeneous_2d : forall H W truncate py px c threshold image out,
  0 <= truncate -> (1 <= size py)%Z -> (1 <= size px)%Z -> 0 < c ->
  rect2 H W image -> bandpass2 truncate py px threshold image = Ok out ->
  exists out', bandpass2 truncate py px (c * threshold) (scale2 c image) = Ok out' /\ rect2 H W out' /\
    forall i j, (0 <= i < Z.of_nat H)%Z -> (0 <= j < Z.of_nat W)%Z -> px2 out' i j == c * px2 out i j.
Proof. exact bandpass2_homogeneous. Qed.
Print Assumptions C10_homogeneous_2d.

(* transposing the image and exchanging the per-axis parameters transposes the result *)
Theorem C10_transpose_2d : forall H W truncate py px threshold A B outA outB,
  0 <= truncate -> (1 <= size py)%Z -> (1 <= size px)%Z ->
  transposed2 H W A B ->
  bandpass2 truncate py px threshold A = Ok outA -> bandpass2 truncate px py threshold B = Ok outB ->
  rect2 H W outA /\ rect2 W H outB /\
  forall i j, (0 <= i < Z.of_nat H)%Z -> (0 <= j < Z.of_nat W)%Z -> px2 outB j i == px2 outA i j.
Proof. exact bandpass2_transpose. Qed.
Print Assumptions C10_transpose_2d.

(* argument guard: the scale error is raised exactly when some axis has
   llong <= lshort; the odd-size error exactly when no axis does and some llong is
   even; otherwise an image is returned - for every image and threshold. *)
Theorem C10_guard_2d : forall truncate py px threshold image,
  bandpass2 truncate py px threshold image = ErrScale <->
  (inject_Z (size py) <= sigma py \/ inject_Z (size px) <= sigma px).
Proof. exact bandpass2_guard. Qed.
Print Assumptions C10_guard_2d.

Theorem C10_outcome_2d : forall truncate py px threshold image,
  match bandpass2 truncate py px threshold image with
  | ErrScale => inject_Z (size py) <= sigma py \/ inject_Z (size px) <= sigma px
  | ErrEven => (sigma py < inject_Z (size py) /\ sigma px < inject_Z (size px)) /\
               (Z.odd (size py) = false \/ Z.odd (size px) = false)
  | Ok _ => (sigma py < inject_Z (size py) /\ sigma px < inject_Z (size px)) /\
            Z.odd (size py) = true /\ Z.odd (size px) = true
  end.
Proof. exact bandpass2_outcome. Qed.
Print Assumptions C10_outcome_2d.

(* ======================= the same for 3-D images ========================= *)
Theorem C10_pointwise_3d : forall (D H W : nat) (truncate : Q) (pz py px : axis_par),
  0 <= truncate -> (1 <= size pz)%Z -> (1 <= size py)%Z -> (1 <= size px)%Z ->
  forall (threshold : Q) (image out : img3),
  rect3 D H W image -> bandpass3 truncate pz py px threshold image = Ok out ->
  rect3 D H W out /\
  forall i j k, (0 <= i < Z.of_nat D)%Z -> (0 <= j < Z.of_nat H)%Z -> (0 <= k < Z.of_nat W)%Z ->
    px3 out i j k == documented3 D H W truncate (sigma pz) (sigma py) (sigma px) (expo pz) (expo py) (expo px)
                                 (size pz) (size py) (size px) threshold image i j k.
Proof. exact bandpass3_pointwise. Qed.
Print Assumptions C10_pointwise_3d.

Theorem C10_sign_3d : forall (D H W : nat) (truncate : Q) (pz py px : axis_par),
  0 <= truncate -> (1 <= size pz)%Z -> (1 <= size py)%Z -> (1 <= size px)%Z ->
  forall threshold image out i j k,
  rect3 D H W image -> bandpass3 truncate pz py px threshold image = Ok out ->
  (0 <= i < Z.of_nat D)%Z -> (0 <= j < Z.of_nat H)%Z -> (0 <= k < Z.of_nat W)%Z ->
  (px3 out i j k == 0 \/ threshold <= px3 out i j k) /\
  (0 <= threshold -> 0 <= px3 out i j k) /\
  (px3 out i j k < 0 <->
     threshold <= difference3 D H W truncate (sigma pz) (sigma py) (sigma px) (expo pz) (expo py) (expo px)
                              (size pz) (size py) (size px) image i j k /\
     difference3 D H W truncate (sigma pz) (sigma py) (sigma px) (expo pz) (expo py) (expo px)
                 (size pz) (size py) (size px) image i j k < 0).
Proof. exact bandpass3_sign. Qed.
Print Assumptions C10_sign_3d.

Theorem C10_homogeneous_3d : forall D H W truncate pz py px c threshold image out,
  0 <= truncate -> (1 <= size pz)%Z -> (1 <= size py)%Z -> (1 <= size px)%Z -> 0 < c ->
  rect3 D H W image -> bandpass3 truncate pz py px threshold image = Ok out ->
  exists out', bandpass3 truncate pz py px (c * threshold) (scale3 c image) = Ok out' /\ rect3 D H W out' /\
    forall i j k, (0 <= i < Z.of_nat D)%Z -> (0 <= j < Z.of_nat H)%Z -> (0 <= k < Z.of_nat W)%Z ->
      px3 out' i j k == c * px3 out i j k.
Proof. exact bandpass3_homogeneous. Qed.
Print Assumptions C10_homogeneous_3d.

(* numpy's .T on a 3-D array reverses the axis order *)
Theorem C10_transpose_3d : forall D H W truncate pz py px threshold A B outA outB,
  0 <= truncate -> (1 <= size pz)%Z -> (1 <= size py)%Z -> (1 <= size px)%Z ->
  transposed3 D H W A B ->
  bandpass3 truncate pz py px threshold A = Ok outA -> bandpass3 truncate px py pz threshold B = Ok outB ->
  rect3 D H W outA /\ rect3 W H D outB /\
  forall i j k, (0 <= i < Z.of_nat D)%Z -> (0 <= j < Z.of_nat H)%Z -> (0 <= k < Z.of_nat W)%Z ->
    px3 outB k j i == px3 outA i j k.
Proof. exact bandpass3_transpose. Qed.
Print Assumptions C10_transpose_3d.

Theorem C10_guard_3d : forall truncate pz py px threshold image,
  bandpass3 truncate pz py px threshold image = ErrScale <->
  (inject_Z (size pz) <= sigma pz \/ inject_Z (size py) <= sigma py \/ inject_Z (size px) <= sigma px).
Proof. exact bandpass3_guard. Qed.
Print Assumptions C10_guard_3d.

Theorem C10_outcome_3d : forall truncate pz py px threshold image,
  match bandpass3 truncate pz py px threshold image with
  | ErrScale => inject_Z (size pz) <= sigma pz \/ inject_Z (size py) <= sigma py \/ inject_Z (size px) <= sigma px
  | ErrEven => (sigma pz < inject_Z (size pz) /\ sigma py < inject_Z (size py) /\ sigma px < inject_Z (size px)) /\
               (Z.odd (size pz) = false \/ Z.odd (size py) = false \/ Z.odd (size px) = false)
  | Ok _ => (sigma pz < inject_Z (size pz) /\ sigma py < inject_Z (size py) /\ sigma px < inject_Z (size px)) /\
            Z.odd (size pz) = true /\ Z.odd (size py) = true /\ Z.odd (size px) = true
  end.
Proof. exact bandpass3_outcome. Qed.
Print Assumptions C10_outcome_3d.

(* ---- non-vacuity: hypotheses are met by a concrete non-trivial case -------- *)
(* lshort = 1, truncate = 1 (half-width 1; exp table 1, 5/8 as a stand-in),
   llong = 3, threshold 1/2, a 3 x 4 image: pixel (1,1) survives with value 22/27,
   pixel (1,2) (unclipped 109/324 < 1/2) is zeroed *)
Definition ex_par : axis_par := mkpar 1 [1; 5 # 8; 1 # 8] 3.
Definition ex_img : img2 := [[0; 0; 0; 0]; [0; 9; 3; 0]; [0; 0; 0; 1]].
Definition ex_imgT : img2 := [[0; 0; 0]; [0; 9; 0]; [0; 3; 0]; [0; 0; 1]].

Example C10_ex_returns : exists out, bandpass2 1 ex_par ex_par (1 # 2) ex_img = Ok out /\
  rect2 3 4 out /\ px2 out 1 1 == 22 # 27 /\ px2 out 1 2 == 0.
Proof. eexists. split. vm_compute. reflexivity. repeat split; try reflexivity; repeat constructor. Qed.

Example C10_ex_hyps : 0 <= 1 /\ (1 <= size ex_par)%Z /\ Qle_bool (sigma ex_par) 0 = false /\ rect2 3 4 ex_img /\
  ~ Qsum_sym (gauss_hw 1 1) (gtab (expo ex_par)) == 0 /\ gauss_hw 1 (sigma ex_par) = 1%Z.
Proof. repeat split; try discriminate; repeat constructor. Qed.

Example C10_ex_transposed : transposed2 3 4 ex_img ex_imgT.
Proof.
  split. repeat constructor. split. repeat constructor.
  intros i j Hi Hj.
  assert (Ci : (i = 0 \/ i = 1 \/ i = 2)%Z) by lia. assert (Cj : (j = 0 \/ j = 1 \/ j = 2 \/ j = 3)%Z) by lia.
  destruct Ci as [->|[->| ->]]; destruct Cj as [->|[->|[->| ->]]]; reflexivity.
Qed.

Example C10_ex_guard : bandpass2 1 (mkpar 3 [] 3) ex_par 0 ex_img = ErrScale /\
                       bandpass2 1 (mkpar 1 [1; 5 # 8; 1 # 8] 4) ex_par 0 ex_img = ErrEven.
Proof. split; reflexivity. Qed.

(* a negative threshold does let negative pixels through (the exact condition is not vacuous) *)
Example C10_ex_negative : exists out, bandpass2 1 ex_par ex_par (- (5)) ex_img = Ok out /\ px2 out 0 0 < 0.
Proof. eexists. split. vm_compute. reflexivity. reflexivity. Qed.

Definition ex_img3 : img3 := [ex_img; [[1; 0; 0; 0]; [0; 0; 0; 0]; [0; 0; 5; 0]]].
Example C10_ex_returns_3d : exists out, bandpass3 1 ex_par ex_par ex_par (- (1 # 10)) ex_img3 = Ok out /\
  rect3 2 3 4 ex_img3 /\ rect3 2 3 4 out /\ px3 out 0 1 1 == - (1 # 36) /\ px3 out 1 1 2 == - (161 # 1944) /\
  px3 out 0 0 0 == 0.
Proof. eexists. split. vm_compute. reflexivity. repeat split; try reflexivity; repeat constructor. Qed.

(* ===================== ROUTE T: the generated preprocessing code =====================
   Gen/preproc.v is regenerated on every run of the check by tools/py2coq_preproc.py
   from the CURRENT trackpy/preprocessing.py (lowpass, boxcar, bandpass) and
   trackpy/masks.py (gaussian_kernel), statement by statement (vocabulary and named
   primitives: Model/PyPreproc.v).  The theorems below tie these generated functions
   to the hand model above for ALL inputs, and restate the headline theorems for
     py_bandpass nd np_exp image image_dtype lshort llong threshold truncate
   where nd = nd2 / nd3 is the 2-D / 3-D array interface, np_exp : Q -> Q stands for
   np.exp (arbitrary), lshort / llong are a scalar (PyScalar) or a sequence (PySeq),
   threshold : option Q (None = the Python default).  The exponential table of the
   hand model is  exp_table np_exp sigma truncate = [np_exp(n^2/(-2 sigma^2)) | n = 0..lw]
   and  axis_of np_exp truncate lshort_a llong_a  the per-axis record built from it
   (Model/BandpassGen.v).  A changed comparison, bound, constant, default, loop or message
   in the source changes Gen/preproc.v and breaks these proofs (Proofs/BandpassGen.v). *)
From Coq Require Import String.
From TP Require Import Model.PyPreproc Model.BandpassGen Gen.preproc Proofs.BandpassGen.

(* the tie: whatever validate_tuple makes of lshort and llong (scalar or per-axis), the
   generated bandpass IS bandpass2 / bandpass3 of the hand model: same image or same error *)
Theorem C10_gen_bandpass_2d : forall (np_exp : Q -> Q) (truncate : Q) (lshort : pyarg Q) (llong : pyarg Z)
    (sy sx : Q) (ly lx : Z) (threshold : option Q) (image_dtype : np_dtype) (image : img2),
  validate_tuple lshort 2 = Ret [sy; sx] -> validate_tuple llong 2 = Ret [ly; lx] ->
  py_bandpass nd2 np_exp image image_dtype lshort llong threshold truncate =
  res_of_outcome (bandpass2 truncate (axis_of np_exp truncate sy ly) (axis_of np_exp truncate sx lx)
                            (effective_threshold image_dtype threshold) image).
Proof. exact gen_bandpass2_eq. Qed.
Print Assumptions C10_gen_bandpass_2d.

Theorem C10_gen_bandpass_3d : forall (np_exp : Q -> Q) (truncate : Q) (lshort : pyarg Q) (llong : pyarg Z)
    (sz sy sx : Q) (lz ly lx : Z) (threshold : option Q) (image_dtype : np_dtype) (image : img3),
  validate_tuple lshort 3 = Ret [sz; sy; sx] -> validate_tuple llong 3 = Ret [lz; ly; lx] ->
  py_bandpass nd3 np_exp image image_dtype lshort llong threshold truncate =
  res_of_outcome (bandpass3 truncate (axis_of np_exp truncate sz lz) (axis_of np_exp truncate sy ly)
                            (axis_of np_exp truncate sx lx) (effective_threshold image_dtype threshold) image).
Proof. exact gen_bandpass3_eq. Qed.
Print Assumptions C10_gen_bandpass_3d.

(* threshold=None means 1 for integer images and 1/255 for float images; any explicit
   threshold - 0 included - is used as given *)
Theorem C10_gen_default_threshold : forall (A : Type) (nd : ndarray A) np_exp image image_dtype lshort llong threshold truncate,
  py_bandpass nd np_exp image image_dtype lshort llong threshold truncate =
  py_bandpass nd np_exp image image_dtype lshort llong
              (Some (match threshold with
                     | Some t => t
                     | None => match image_dtype with np_integer_dtype => 1 | np_float_dtype => 1 # 255 end
                     end)) truncate.
Proof. exact (@gen_bandpass_threshold). Qed.
Print Assumptions C10_gen_default_threshold.

(* a per-axis argument of the wrong length is rejected with validate_tuple's error *)
Theorem C10_gen_bad_length : forall (A : Type) (nd : ndarray A) np_exp image image_dtype lshort llong threshold truncate m,
  validate_tuple lshort (nd_ndim nd) = RaiseValueError m ->
  py_bandpass nd np_exp image image_dtype lshort llong threshold truncate = RaiseValueError m.
Proof. exact (@gen_bandpass_bad_lshort). Qed.
Print Assumptions C10_gen_bad_length.

(* the generated gaussian_kernel, lowpass and boxcar are the hand model's *)
Theorem C10_gen_kernel : forall (np_exp : Q -> Q) (sigma truncate : Q) (llong : Z),
  py_gaussian_kernel np_exp sigma truncate = kern truncate (axis_of np_exp truncate sigma llong).
Proof. exact gen_kernel_eq. Qed.
Print Assumptions C10_gen_kernel.

Theorem C10_gen_lowpass_2d : forall np_exp truncate sigma sy sx ly lx image,
  validate_tuple sigma 2 = Ret [sy; sx] ->
  py_lowpass nd2 np_exp image sigma truncate =
  Ret (lowpass2 truncate (axis_of np_exp truncate sy ly) (axis_of np_exp truncate sx lx) image).
Proof. exact gen_lowpass2_eq. Qed.
Print Assumptions C10_gen_lowpass_2d.

Theorem C10_gen_lowpass_3d : forall np_exp truncate sigma sz sy sx lz ly lx image,
  validate_tuple sigma 3 = Ret [sz; sy; sx] ->
  py_lowpass nd3 np_exp image sigma truncate =
  Ret (lowpass3 truncate (axis_of np_exp truncate sz lz) (axis_of np_exp truncate sy ly) (axis_of np_exp truncate sx lx) image).
Proof. exact gen_lowpass3_eq. Qed.
Print Assumptions C10_gen_lowpass_3d.

Theorem C10_gen_boxcar_2d : forall size_arg py px image,
  validate_tuple size_arg 2 = Ret [size py; size px] ->
  py_boxcar nd2 image size_arg =
  match boxcar2 py px image with Some out => Ret out | None => RaiseValueError MSG_ODD end.
Proof. exact gen_boxcar2_eq. Qed.
Print Assumptions C10_gen_boxcar_2d.

Theorem C10_gen_boxcar_3d : forall size_arg pz py px image,
  validate_tuple size_arg 3 = Ret [size pz; size py; size px] ->
  py_boxcar nd3 image size_arg =
  match boxcar3 pz py px image with Some out => Ret out | None => RaiseValueError MSG_ODD end.
Proof. exact gen_boxcar3_eq. Qed.
Print Assumptions C10_gen_boxcar_3d.

(* the default arguments in the source *)
Theorem C10_gen_defaults :
  py_gaussian_kernel_default_truncate = 4 /\ py_lowpass_default_sigma = PyScalar 1 /\ py_lowpass_default_truncate = 4 /\
  py_bandpass_default_threshold = None /\ py_bandpass_default_truncate = 4.
Proof. exact gen_defaults. Qed.
Print Assumptions C10_gen_defaults.

(* the generated kernel is the truncated normalised Gaussian: 2l+1 weights, l = floor(truncate*sigma + 1/2),
   the weight at offset x is np_exp(x^2/(-2 sigma^2)) / sum_{y=-l..l} np_exp(y^2/(-2 sigma^2)) *)
Theorem C10_gen_kernel_is_gaussian : forall (np_exp : Q -> Q) (truncate sigma : Q),
  0 <= truncate -> Qle_bool sigma 0 = false ->
  List.length (py_gaussian_kernel np_exp sigma truncate) = Z.to_nat (2 * gauss_hw truncate sigma + 1) /\
  forall x, (- gauss_hw truncate sigma <= x <= gauss_hw truncate sigma)%Z ->
    kf (py_gaussian_kernel np_exp sigma truncate) x == gauss_w truncate sigma (exp_table np_exp sigma truncate) x.
Proof. exact gen_kernel_is_gaussian. Qed.
Print Assumptions C10_gen_kernel_is_gaussian.

Theorem C10_gen_exp_table : forall (np_exp : Q -> Q) (sigma truncate : Q) (x : Z),
  (Z.abs x <= half_width sigma truncate)%Z ->
  gtab (exp_table np_exp sigma truncate) x = np_exp (py_div (inject_Z (x ^ 2)) (- (2) * sigma ^ 2)).
Proof. exact gen_exp_table. Qed.
Print Assumptions C10_gen_exp_table.

(* ---- the headline theorems, for the generated bandpass (2-D) ---- *)
Theorem C10_gen_pointwise_2d : forall (np_exp : Q -> Q) (lshort : pyarg Q) (llong : pyarg Z) (sy sx : Q) (ly lx : Z),
  validate_tuple lshort 2 = Ret [sy; sx] -> validate_tuple llong 2 = Ret [ly; lx] ->
  forall (H W : nat) (truncate : Q), 0 <= truncate -> (1 <= ly)%Z -> (1 <= lx)%Z ->
  forall (threshold : option Q) (image_dtype : np_dtype) (image out : img2),
  rect2 H W image -> py_bandpass nd2 np_exp image image_dtype lshort llong threshold truncate = Ret out ->
  rect2 H W out /\
  forall i j, (0 <= i < Z.of_nat H)%Z -> (0 <= j < Z.of_nat W)%Z ->
    px2 out i j == documented2 H W truncate sy sx (exp_table np_exp sy truncate) (exp_table np_exp sx truncate)
                               ly lx (effective_threshold image_dtype threshold) image i j.
Proof. exact gen_bandpass2_pointwise. Qed.
Print Assumptions C10_gen_pointwise_2d.

Theorem C10_gen_sign_2d : forall (np_exp : Q -> Q) (lshort : pyarg Q) (llong : pyarg Z) (sy sx : Q) (ly lx : Z),
  validate_tuple lshort 2 = Ret [sy; sx] -> validate_tuple llong 2 = Ret [ly; lx] ->
  forall (H W : nat) (truncate : Q), 0 <= truncate -> (1 <= ly)%Z -> (1 <= lx)%Z ->
  forall threshold image_dtype image out i j,
  rect2 H W image -> py_bandpass nd2 np_exp image image_dtype lshort llong threshold truncate = Ret out ->
  (0 <= i < Z.of_nat H)%Z -> (0 <= j < Z.of_nat W)%Z ->
  (px2 out i j == 0 \/ effective_threshold image_dtype threshold <= px2 out i j) /\
  (0 <= effective_threshold image_dtype threshold -> 0 <= px2 out i j) /\
  (px2 out i j < 0 <->
     effective_threshold image_dtype threshold <=
       difference2 H W truncate sy sx (exp_table np_exp sy truncate) (exp_table np_exp sx truncate) ly lx image i j /\
     difference2 H W truncate sy sx (exp_table np_exp sy truncate) (exp_table np_exp sx truncate) ly lx image i j < 0).
Proof. exact gen_bandpass2_sign. Qed.
Print Assumptions C10_gen_sign_2d.

Theorem C10_gen_homogeneous_2d : forall (np_exp : Q -> Q) (lshort : pyarg Q) (llong : pyarg Z) (sy sx : Q) (ly lx : Z),
  validate_tuple lshort 2 = Ret [sy; sx] -> validate_tuple llong 2 = Ret [ly; lx] ->
  forall H W truncate c threshold image_dtype image out,
  0 <= truncate -> (1 <= ly)%Z -> (1 <= lx)%Z -> 0 < c ->
  rect2 H W image -> py_bandpass nd2 np_exp image image_dtype lshort llong (Some threshold) truncate = Ret out ->
  exists out', py_bandpass nd2 np_exp (scale2 c image) image_dtype lshort llong (Some (c * threshold)) truncate = Ret out' /\
    rect2 H W out' /\
    forall i j, (0 <= i < Z.of_nat H)%Z -> (0 <= j < Z.of_nat W)%Z -> px2 out' i j == c * px2 out i j.
Proof. exact gen_bandpass2_homogeneous. Qed.
Print Assumptions C10_gen_homogeneous_2d.

Theorem C10_gen_transpose_2d : forall np_exp H W truncate lshort llong lshortT llongT sy sx ly lx threshold image_dtype A B outA outB,
  validate_tuple lshort 2 = Ret [sy; sx] -> validate_tuple llong 2 = Ret [ly; lx] ->
  validate_tuple lshortT 2 = Ret [sx; sy] -> validate_tuple llongT 2 = Ret [lx; ly] ->
  0 <= truncate -> (1 <= ly)%Z -> (1 <= lx)%Z ->
  transposed2 H W A B ->
  py_bandpass nd2 np_exp A image_dtype lshort llong threshold truncate = Ret outA ->
  py_bandpass nd2 np_exp B image_dtype lshortT llongT threshold truncate = Ret outB ->
  rect2 H W outA /\ rect2 W H outB /\
  forall i j, (0 <= i < Z.of_nat H)%Z -> (0 <= j < Z.of_nat W)%Z -> px2 outB j i == px2 outA i j.
Proof. exact gen_bandpass2_transpose. Qed.
Print Assumptions C10_gen_transpose_2d.

(* the guard is per axis (llong_a <= lshort_a on SOME axis), not a comparison of the tuples *)
Theorem C10_gen_guard_2d : forall (np_exp : Q -> Q) (lshort : pyarg Q) (llong : pyarg Z) (sy sx : Q) (ly lx : Z),
  validate_tuple lshort 2 = Ret [sy; sx] -> validate_tuple llong 2 = Ret [ly; lx] ->
  forall truncate threshold image_dtype image,
  py_bandpass nd2 np_exp image image_dtype lshort llong threshold truncate = RaiseValueError MSG_SCALE <->
  (inject_Z ly <= sy \/ inject_Z lx <= sx).
Proof. exact gen_bandpass2_guard. Qed.
Print Assumptions C10_gen_guard_2d.

Theorem C10_gen_outcome_2d : forall (np_exp : Q -> Q) (lshort : pyarg Q) (llong : pyarg Z) (sy sx : Q) (ly lx : Z),
  validate_tuple lshort 2 = Ret [sy; sx] -> validate_tuple llong 2 = Ret [ly; lx] ->
  forall truncate threshold image_dtype image,
  match py_bandpass nd2 np_exp image image_dtype lshort llong threshold truncate with
  | RaiseValueError m =>
      (m = MSG_SCALE /\ (inject_Z ly <= sy \/ inject_Z lx <= sx)) \/
      (m = MSG_ODD /\ (sy < inject_Z ly /\ sx < inject_Z lx) /\ (Z.odd ly = false \/ Z.odd lx = false))
  | Ret _ => (sy < inject_Z ly /\ sx < inject_Z lx) /\ Z.odd ly = true /\ Z.odd lx = true
  end.
Proof. exact gen_bandpass2_outcome. Qed.
Print Assumptions C10_gen_outcome_2d.

(* ---- the same for 3-D ---- *)
Theorem C10_gen_pointwise_3d : forall (np_exp : Q -> Q) (lshort : pyarg Q) (llong : pyarg Z) (sz sy sx : Q) (lz ly lx : Z),
  validate_tuple lshort 3 = Ret [sz; sy; sx] -> validate_tuple llong 3 = Ret [lz; ly; lx] ->
  forall (D H W : nat) (truncate : Q), 0 <= truncate -> (1 <= lz)%Z -> (1 <= ly)%Z -> (1 <= lx)%Z ->
  forall (threshold : option Q) (image_dtype : np_dtype) (image out : img3),
  rect3 D H W image -> py_bandpass nd3 np_exp image image_dtype lshort llong threshold truncate = Ret out ->
  rect3 D H W out /\
  forall i j k, (0 <= i < Z.of_nat D)%Z -> (0 <= j < Z.of_nat H)%Z -> (0 <= k < Z.of_nat W)%Z ->
    px3 out i j k == documented3 D H W truncate sz sy sx (exp_table np_exp sz truncate) (exp_table np_exp sy truncate)
                                 (exp_table np_exp sx truncate) lz ly lx (effective_threshold image_dtype threshold) image i j k.
Proof. exact gen_bandpass3_pointwise. Qed.
Print Assumptions C10_gen_pointwise_3d.

Theorem C10_gen_sign_3d : forall (np_exp : Q -> Q) (lshort : pyarg Q) (llong : pyarg Z) (sz sy sx : Q) (lz ly lx : Z),
  validate_tuple lshort 3 = Ret [sz; sy; sx] -> validate_tuple llong 3 = Ret [lz; ly; lx] ->
  forall (D H W : nat) (truncate : Q), 0 <= truncate -> (1 <= lz)%Z -> (1 <= ly)%Z -> (1 <= lx)%Z ->
  forall threshold image_dtype image out i j k,
  rect3 D H W image -> py_bandpass nd3 np_exp image image_dtype lshort llong threshold truncate = Ret out ->
  (0 <= i < Z.of_nat D)%Z -> (0 <= j < Z.of_nat H)%Z -> (0 <= k < Z.of_nat W)%Z ->
  (px3 out i j k == 0 \/ effective_threshold image_dtype threshold <= px3 out i j k) /\
  (0 <= effective_threshold image_dtype threshold -> 0 <= px3 out i j k) /\
  (px3 out i j k < 0 <->
     effective_threshold image_dtype threshold <=
       difference3 D H W truncate sz sy sx (exp_table np_exp sz truncate) (exp_table np_exp sy truncate)
                   (exp_table np_exp sx truncate) lz ly lx image i j k /\
     difference3 D H W truncate sz sy sx (exp_table np_exp sz truncate) (exp_table np_exp sy truncate)
                 (exp_table np_exp sx truncate) lz ly lx image i j k < 0).
Proof. exact gen_bandpass3_sign. Qed.
Print Assumptions C10_gen_sign_3d.

Theorem C10_gen_homogeneous_3d : forall (np_exp : Q -> Q) (lshort : pyarg Q) (llong : pyarg Z) (sz sy sx : Q) (lz ly lx : Z),
  validate_tuple lshort 3 = Ret [sz; sy; sx] -> validate_tuple llong 3 = Ret [lz; ly; lx] ->
  forall D H W truncate c threshold image_dtype image out,
  0 <= truncate -> (1 <= lz)%Z -> (1 <= ly)%Z -> (1 <= lx)%Z -> 0 < c ->
  rect3 D H W image -> py_bandpass nd3 np_exp image image_dtype lshort llong (Some threshold) truncate = Ret out ->
  exists out', py_bandpass nd3 np_exp (scale3 c image) image_dtype lshort llong (Some (c * threshold)) truncate = Ret out' /\
    rect3 D H W out' /\
    forall i j k, (0 <= i < Z.of_nat D)%Z -> (0 <= j < Z.of_nat H)%Z -> (0 <= k < Z.of_nat W)%Z ->
      px3 out' i j k == c * px3 out i j k.
Proof. exact gen_bandpass3_homogeneous. Qed.
Print Assumptions C10_gen_homogeneous_3d.

Theorem C10_gen_transpose_3d : forall np_exp D H W truncate lshort llong lshortT llongT sz sy sx lz ly lx threshold image_dtype A B outA outB,
  validate_tuple lshort 3 = Ret [sz; sy; sx] -> validate_tuple llong 3 = Ret [lz; ly; lx] ->
  validate_tuple lshortT 3 = Ret [sx; sy; sz] -> validate_tuple llongT 3 = Ret [lx; ly; lz] ->
  0 <= truncate -> (1 <= lz)%Z -> (1 <= ly)%Z -> (1 <= lx)%Z ->
  transposed3 D H W A B ->
  py_bandpass nd3 np_exp A image_dtype lshort llong threshold truncate = Ret outA ->
  py_bandpass nd3 np_exp B image_dtype lshortT llongT threshold truncate = Ret outB ->
  rect3 D H W outA /\ rect3 W H D outB /\
  forall i j k, (0 <= i < Z.of_nat D)%Z -> (0 <= j < Z.of_nat H)%Z -> (0 <= k < Z.of_nat W)%Z ->
    px3 outB k j i == px3 outA i j k.
Proof. exact gen_bandpass3_transpose. Qed.
Print Assumptions C10_gen_transpose_3d.

Theorem C10_gen_guard_3d : forall (np_exp : Q -> Q) (lshort : pyarg Q) (llong : pyarg Z) (sz sy sx : Q) (lz ly lx : Z),
  validate_tuple lshort 3 = Ret [sz; sy; sx] -> validate_tuple llong 3 = Ret [lz; ly; lx] ->
  forall truncate threshold image_dtype image,
  py_bandpass nd3 np_exp image image_dtype lshort llong threshold truncate = RaiseValueError MSG_SCALE <->
  (inject_Z lz <= sz \/ inject_Z ly <= sy \/ inject_Z lx <= sx).
Proof. exact gen_bandpass3_guard. Qed.
Print Assumptions C10_gen_guard_3d.

Theorem C10_gen_outcome_3d : forall (np_exp : Q -> Q) (lshort : pyarg Q) (llong : pyarg Z) (sz sy sx : Q) (lz ly lx : Z),
  validate_tuple lshort 3 = Ret [sz; sy; sx] -> validate_tuple llong 3 = Ret [lz; ly; lx] ->
  forall truncate threshold image_dtype image,
  match py_bandpass nd3 np_exp image image_dtype lshort llong threshold truncate with
  | RaiseValueError m =>
      (m = MSG_SCALE /\ (inject_Z lz <= sz \/ inject_Z ly <= sy \/ inject_Z lx <= sx)) \/
      (m = MSG_ODD /\ (sz < inject_Z lz /\ sy < inject_Z ly /\ sx < inject_Z lx) /\
                      (Z.odd lz = false \/ Z.odd ly = false \/ Z.odd lx = false))
  | Ret _ => (sz < inject_Z lz /\ sy < inject_Z ly /\ sx < inject_Z lx) /\
             Z.odd lz = true /\ Z.odd ly = true /\ Z.odd lx = true
  end.
Proof. exact gen_bandpass3_outcome. Qed.
Print Assumptions C10_gen_outcome_3d.

(* ---- non-vacuity for the generated code: a stand-in for np.exp (1/(1 - q), positive and
   decreasing on q <= 0), scalar lshort = 1 and llong = 3 (validated to pairs), truncate = 1.
   The kernel is 2/7, 3/7, 2/7.  On ex_img / 10 the default threshold of a float image (1/255)
   zeroes pixel (0,1) whose unclipped value is 1/735, an explicit threshold 0 keeps it: an explicit
   0 is NOT replaced by the default.  lshort = (1, 3), llong = (5, 3) is rejected (axis 1), although
   the tuple (1, 3) is smaller than (5, 3); an even llong gives the other error. *)
Definition ex_exp (q : Q) : Q := Qred (1 / (1 - q)).
Definition ex_img_small : img2 := scale2 (1 # 10) ex_img.
Example C10_gen_ex_validate : validate_tuple (PyScalar 1) 2 = Ret [1; 1] /\ validate_tuple (PyScalar 3%Z) 2 = Ret [3%Z; 3%Z] /\
  validate_tuple (PySeq [1; 2; 3]) 2 = RaiseValueError MSG_LENGTH /\ py_gaussian_kernel ex_exp 1 1 = [2 # 7; 3 # 7; 2 # 7].
Proof. repeat split. Qed.
Example C10_gen_ex_returns : exists out out0,
  py_bandpass nd2 ex_exp ex_img_small np_float_dtype (PyScalar 1) (PyScalar 3%Z) None 1 = Ret out /\
  py_bandpass nd2 ex_exp ex_img_small np_float_dtype (PyScalar 1) (PyScalar 3%Z) (Some 0) 1 = Ret out0 /\
  rect2 3 4 ex_img_small /\ rect2 3 4 out /\ px2 out 1 1 == 101 # 1470 /\ px2 out0 1 1 == 101 # 1470 /\
  px2 out 0 1 == 0 /\ px2 out0 0 1 == 1 # 735.
Proof. eexists. eexists. split. vm_compute. reflexivity. split. vm_compute. reflexivity.
  repeat split; try reflexivity; repeat constructor. Qed.
Example C10_gen_ex_errors :
  py_bandpass nd2 ex_exp ex_img np_float_dtype (PySeq [1; 3]) (PySeq [5; 3]%Z) None 1 = RaiseValueError MSG_SCALE /\
  py_bandpass nd2 ex_exp ex_img np_float_dtype (PySeq [1; 1]) (PySeq [4; 3]%Z) None 1 = RaiseValueError MSG_ODD /\
  py_bandpass nd2 ex_exp ex_img np_float_dtype (PySeq [1; 1; 1]) (PySeq [3; 3]%Z) None 1 = RaiseValueError MSG_LENGTH.
Proof. repeat split. Qed.
