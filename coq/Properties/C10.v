(* C10 — bandpass is the documented filter and nothing else.
   Only statements closed by [exact]; proofs live in Proofs/Bandpass.v (2-D) and
   Proofs/Bandpass3.v (3-D; documented3 / difference3 in Model/BandpassSpec3.v are the
   same formulas with triple sums).
   Model: Model/Bandpass.v (trackpy.preprocessing.{lowpass,boxcar,bandpass} and
   masks.gaussian_kernel as separable passes over nested lists).
   Declarative side: Model/BandpassSpec.v, where
     documented2 H W truncate ls_y ls_x E_y E_x ll_y ll_x thr im i j
       = let d := (sum_{a=-ly..ly} sum_{b=-lx..lx} g_y(a) g_x(b) im0(i+a, j+b))
                  - (sum_{a=-by..by} sum_{b=-bx..bx} imE(i+a, j+b)) / ((2by+1)(2bx+1))
         in if thr <= d then d else 0
     l = floor(truncate*lshort + 1/2) (0 when lshort <= 0), g(x) = E(|x|) / sum_{y=-l..l} E(|y|)
     (1 when lshort <= 0), b = (llong-1)/2, im0 = image continued by zeros,
     imE = image continued by repeating its edge pixels, E = table of exp(-n^2/(2 lshort^2)). *)
From Coq Require Import ZArith QArith List Lia.
From TP Require Import Model.Bandpass Model.BandpassSpec Model.BandpassSpec3 Proofs.Bandpass Proofs.Bandpass3.
Import ListNotations.
Open Scope Q_scope.

(* pointwise definition + shape: whenever bandpass returns an image for an H x W
   input, the result is H x W and every pixel is the documented value (the two
   Gaussian passes and the two boxcar passes compose to the nested sums). *)
Theorem C10_pointwise_2d : forall (H W : nat) (truncate : Q) (py px : axis_par),
  0 <= truncate -> (1 <= size py)%Z -> (1 <= size px)%Z ->
  forall (threshold : Q) (image out : img2),
  rect2 H W image -> bandpass2 truncate py px threshold image = Ok out ->
  rect2 H W out /\
  forall i j, (0 <= i < Z.of_nat H)%Z -> (0 <= j < Z.of_nat W)%Z ->
    px2 out i j == documented2 H W truncate (sigma py) (sigma px) (expo py) (expo px)
                               (size py) (size px) threshold image i j.
Proof. exact bandpass2_pointwise. Qed.
Print Assumptions C10_pointwise_2d.

(* "convolved with the ... Gaussian": the weights are even, so the correlation
   in [smooth2] is the convolution; and the weights sum to one. *)
Theorem C10_convolution_2d : forall H W t sy sx Ey Ex im i j,
  smooth2 H W (gauss_hw t sy) (gauss_hw t sx) (gauss_w t sy Ey) (gauss_w t sx Ex) im i j ==
  Qsum_sym (gauss_hw t sy) (fun a => Qsum_sym (gauss_hw t sx) (fun b =>
    gauss_w t sy Ey a * gauss_w t sx Ex b * zero_ext2 H W im (i - a) (j - b))).
Proof. exact smooth2_convolution. Qed.
Print Assumptions C10_convolution_2d.

Theorem C10_kernel_normalised : forall t s E,
  ~ Qsum_sym (gauss_hw t s) (gtab E) == 0 -> Qsum_sym (gauss_hw t s) (gauss_w t s E) == 1.
Proof. exact gauss_w_normalised. Qed.
Print Assumptions C10_kernel_normalised.

(* the model's gaussian_kernel (int(truncate*sigma+0.5), arange, normalise) IS that
   kernel: 2l+1 weights, the one at offset x from the centre is g(x) *)
Theorem C10_kernel_is_gaussian : forall (t : Q) (p : axis_par),
  0 <= t -> Qle_bool (sigma p) 0 = false ->
  length (kern t p) = Z.to_nat (2 * gauss_hw t (sigma p) + 1) /\
  forall x, (- gauss_hw t (sigma p) <= x <= gauss_hw t (sigma p))%Z ->
    kf (kern t p) x == gauss_w t (sigma p) (expo p) x.
Proof. exact kern_is_gaussian. Qed.
Print Assumptions C10_kernel_is_gaussian.

(* never negative - exact condition: a pixel is 0 or >= threshold; with a
   non-negative threshold nothing is negative; a pixel is negative exactly when the
   unclipped difference d satisfies threshold <= d < 0. *)
Theorem C10_sign_2d : forall (H W : nat) (truncate : Q) (py px : axis_par),
  0 <= truncate -> (1 <= size py)%Z -> (1 <= size px)%Z ->
  forall threshold image out i j,
  rect2 H W image -> bandpass2 truncate py px threshold image = Ok out ->
  (0 <= i < Z.of_nat H)%Z -> (0 <= j < Z.of_nat W)%Z ->
  (px2 out i j == 0 \/ threshold <= px2 out i j) /\
  (0 <= threshold -> 0 <= px2 out i j) /\
  (px2 out i j < 0 <->
     threshold <= difference2 H W truncate (sigma py) (sigma px) (expo py) (expo px) (size py) (size px) image i j /\
     difference2 H W truncate (sigma py) (sigma px) (expo py) (expo px) (size py) (size px) image i j < 0).
Proof. exact bandpass2_sign. Qed.
Print Assumptions C10_sign_2d.

(* scaling image and threshold by c > 0 scales the result by c *)
Theorem C10_homogeneous_2d : forall H W truncate py px c threshold image out,
  0 <= truncate -> (1 <= size py)%Z -> (1 <= size px)%Z -> 0 < c ->
  rect2 H W image -> bandpass2 truncate py px threshold image = Ok out ->
  exists out', bandpass2 truncate py px (c * threshold) (scale2 c image) = Ok out' /\ rect2 H W out' /\
    forall i j, (0 <= i < Z.of_nat H)%Z -> (0 <= j < Z.of_nat W)%Z -> px2 out' i j == c * px2 out i j.
Proof. exact bandpass2_homogeneous. Qed.
Print Assumptions C10_homogeneous_2d.

(* transposing the image and exchanging the per-axis parameters transposes the result *)
Theorem C10_transpose_2d : forall H W truncate py px threshold A B outA outB,
  0 <= truncate -> (1 <= size py)%Z -> (1 <= size px)%Z ->
  transposed2 H W A B ->
  bandpass2 truncate py px threshold A = Ok outA -> bandpass2 truncate px py threshold B = Ok outB ->
  rect2 H W outA /\ rect2 W H outB /\
  forall i j, (0 <= i < Z.of_nat H)%Z -> (0 <= j < Z.of_nat W)%Z -> px2 outB j i == px2 outA i j.
Proof. exact bandpass2_transpose. Qed.
Print Assumptions C10_transpose_2d.

(* argument guard: the scale error is raised exactly when some axis has
   llong <= lshort; the odd-size error exactly when no axis does and some llong is
   even; otherwise an image is returned - for every image and threshold. *)
Theorem C10_guard_2d : forall truncate py px threshold image,
  bandpass2 truncate py px threshold image = ErrScale <->
  (inject_Z (size py) <= sigma py \/ inject_Z (size px) <= sigma px).
Proof. exact bandpass2_guard. Qed.
Print Assumptions C10_guard_2d.

Theorem C10_outcome_2d : forall truncate py px threshold image,
  match bandpass2 truncate py px threshold image with
  | ErrScale => inject_Z (size py) <= sigma py \/ inject_Z (size px) <= sigma px
  | ErrEven => (sigma py < inject_Z (size py) /\ sigma px < inject_Z (size px)) /\
               (Z.odd (size py) = false \/ Z.odd (size px) = false)
  | Ok _ => (sigma py < inject_Z (size py) /\ sigma px < inject_Z (size px)) /\
            Z.odd (size py) = true /\ Z.odd (size px) = true
  end.
Proof. exact bandpass2_outcome. Qed.
Print Assumptions C10_outcome_2d.

(* ======================= the same for 3-D images ========================= *)
Theorem C10_pointwise_3d : forall (D H W : nat) (truncate : Q) (pz py px : axis_par),
  0 <= truncate -> (1 <= size pz)%Z -> (1 <= size py)%Z -> (1 <= size px)%Z ->
  forall (threshold : Q) (image out : img3),
  rect3 D H W image -> bandpass3 truncate pz py px threshold image = Ok out ->
  rect3 D H W out /\
  forall i j k, (0 <= i < Z.of_nat D)%Z -> (0 <= j < Z.of_nat H)%Z -> (0 <= k < Z.of_nat W)%Z ->
    px3 out i j k == documented3 D H W truncate (sigma pz) (sigma py) (sigma px) (expo pz) (expo py) (expo px)
                                 (size pz) (size py) (size px) threshold image i j k.
Proof. exact bandpass3_pointwise. Qed.
Print Assumptions C10_pointwise_3d.

Theorem C10_sign_3d : forall (D H W : nat) (truncate : Q) (pz py px : axis_par),
  0 <= truncate -> (1 <= size pz)%Z -> (1 <= size py)%Z -> (1 <= size px)%Z ->
  forall threshold image out i j k,
  rect3 D H W image -> bandpass3 truncate pz py px threshold image = Ok out ->
  (0 <= i < Z.of_nat D)%Z -> (0 <= j < Z.of_nat H)%Z -> (0 <= k < Z.of_nat W)%Z ->
  (px3 out i j k == 0 \/ threshold <= px3 out i j k) /\
  (0 <= threshold -> 0 <= px3 out i j k) /\
  (px3 out i j k < 0 <->
     threshold <= difference3 D H W truncate (sigma pz) (sigma py) (sigma px) (expo pz) (expo py) (expo px)
                              (size pz) (size py) (size px) image i j k /\
     difference3 D H W truncate (sigma pz) (sigma py) (sigma px) (expo pz) (expo py) (expo px)
                 (size pz) (size py) (size px) image i j k < 0).
Proof. exact bandpass3_sign. Qed.
Print Assumptions C10_sign_3d.

Theorem C10_homogeneous_3d : forall D H W truncate pz py px c threshold image out,
  0 <= truncate -> (1 <= size pz)%Z -> (1 <= size py)%Z -> (1 <= size px)%Z -> 0 < c ->
  rect3 D H W image -> bandpass3 truncate pz py px threshold image = Ok out ->
  exists out', bandpass3 truncate pz py px (c * threshold) (scale3 c image) = Ok out' /\ rect3 D H W out' /\
    forall i j k, (0 <= i < Z.of_nat D)%Z -> (0 <= j < Z.of_nat H)%Z -> (0 <= k < Z.of_nat W)%Z ->
      px3 out' i j k == c * px3 out i j k.
Proof. exact bandpass3_homogeneous. Qed.
Print Assumptions C10_homogeneous_3d.

(* numpy's .T on a 3-D array reverses the axis order *)
Theorem C10_transpose_3d : forall D H W truncate pz py px threshold A B outA outB,
  0 <= truncate -> (1 <= size pz)%Z -> (1 <= size py)%Z -> (1 <= size px)%Z ->
  transposed3 D H W A B ->
  bandpass3 truncate pz py px threshold A = Ok outA -> bandpass3 truncate px py pz threshold B = Ok outB ->
  rect3 D H W outA /\ rect3 W H D outB /\
  forall i j k, (0 <= i < Z.of_nat D)%Z -> (0 <= j < Z.of_nat H)%Z -> (0 <= k < Z.of_nat W)%Z ->
    px3 outB k j i == px3 outA i j k.
Proof. exact bandpass3_transpose. Qed.
Print Assumptions C10_transpose_3d.

Theorem C10_guard_3d : forall truncate pz py px threshold image,
  bandpass3 truncate pz py px threshold image = ErrScale <->
  (inject_Z (size pz) <= sigma pz \/ inject_Z (size py) <= sigma py \/ inject_Z (size px) <= sigma px).
Proof. exact bandpass3_guard. Qed.
Print Assumptions C10_guard_3d.

Theorem C10_outcome_3d : forall truncate pz py px threshold image,
  match bandpass3 truncate pz py px threshold image with
  | ErrScale => inject_Z (size pz) <= sigma pz \/ inject_Z (size py) <= sigma py \/ inject_Z (size px) <= sigma px
  | ErrEven => (sigma pz < inject_Z (size pz) /\ sigma py < inject_Z (size py) /\ sigma px < inject_Z (size px)) /\
               (Z.odd (size pz) = false \/ Z.odd (size py) = false \/ Z.odd (size px) = false)
  | Ok _ => (sigma pz < inject_Z (size pz) /\ sigma py < inject_Z (size py) /\ sigma px < inject_Z (size px)) /\
            Z.odd (size pz) = true /\ Z.odd (size py) = true /\ Z.odd (size px) = true
  end.
Proof. exact bandpass3_outcome. Qed.
Print Assumptions C10_outcome_3d.

(* ---- non-vacuity: hypotheses are met by a concrete non-trivial case -------- *)
(* lshort = 1, truncate = 1 (half-width 1; exp table 1, 5/8 as a stand-in),
   llong = 3, threshold 1/2, a 3 x 4 image: pixel (1,1) survives with value 22/27,
   pixel (1,2) (unclipped 109/324 < 1/2) is zeroed *)
Definition ex_par : axis_par := mkpar 1 [1; 5 # 8; 1 # 8] 3.
Definition ex_img : img2 := [[0; 0; 0; 0]; [0; 9; 3; 0]; [0; 0; 0; 1]].
Definition ex_imgT : img2 := [[0; 0; 0]; [0; 9; 0]; [0; 3; 0]; [0; 0; 1]].

Example C10_ex_returns : exists out, bandpass2 1 ex_par ex_par (1 # 2) ex_img = Ok out /\
  rect2 3 4 out /\ px2 out 1 1 == 22 # 27 /\ px2 out 1 2 == 0.
Proof. eexists. split. vm_compute. reflexivity. repeat split; try reflexivity; repeat constructor. Qed.

Example C10_ex_hyps : 0 <= 1 /\ (1 <= size ex_par)%Z /\ Qle_bool (sigma ex_par) 0 = false /\ rect2 3 4 ex_img /\
  ~ Qsum_sym (gauss_hw 1 1) (gtab (expo ex_par)) == 0 /\ gauss_hw 1 (sigma ex_par) = 1%Z.
Proof. repeat split; try discriminate; repeat constructor. Qed.

Example C10_ex_transposed : transposed2 3 4 ex_img ex_imgT.
Proof.
  split. repeat constructor. split. repeat constructor.
  intros i j Hi Hj.
  assert (Ci : (i = 0 \/ i = 1 \/ i = 2)%Z) by lia. assert (Cj : (j = 0 \/ j = 1 \/ j = 2 \/ j = 3)%Z) by lia.
  destruct Ci as [->|[->| ->]]; destruct Cj as [->|[->|[->| ->]]]; reflexivity.
Qed.

Example C10_ex_guard : bandpass2 1 (mkpar 3 [] 3) ex_par 0 ex_img = ErrScale /\
                       bandpass2 1 (mkpar 1 [1; 5 # 8; 1 # 8] 4) ex_par 0 ex_img = ErrEven.
Proof. split; reflexivity. Qed.

(* a negative threshold does let negative pixels through (the exact condition is not vacuous) *)
Example C10_ex_negative : exists out, bandpass2 1 ex_par ex_par (- (5)) ex_img = Ok out /\ px2 out 0 0 < 0.
Proof. eexists. split. vm_compute. reflexivity. reflexivity. Qed.

Definition ex_img3 : img3 := [ex_img; [[1; 0; 0; 0]; [0; 0; 0; 0]; [0; 0; 5; 0]]].
Example C10_ex_returns_3d : exists out, bandpass3 1 ex_par ex_par ex_par (- (1 # 10)) ex_img3 = Ok out /\
  rect3 2 3 4 ex_img3 /\ rect3 2 3 4 out /\ px3 out 0 1 1 == - (1 # 36) /\ px3 out 1 1 2 == - (161 # 1944) /\
  px3 out 0 0 0 == 0.
Proof. eexists. split. vm_compute. reflexivity. repeat split; try reflexivity; repeat constructor. Qed.
