(* C02 — every frame-to-frame assignment is the global optimum (Crocker-Grier).
   Only statements closed by [exact]; proofs live in Proofs/. *)
From Coq Require Import ZArith List.
From TP Require Import Model.Assign Model.Link Proofs.BnB.
Import ListNotations.
Open Scope Z_scope.

(* The pruned recursive search (SubnetLinker.do_recur) returns a one-to-one
   assignment of minimal total cost, for every subnet size and every cost
   pattern, provided each candidate list is sorted by cost and costs are >= 0. *)
Theorem C02_bnb_optimal : forall srcs v a,
  nonneg srcs -> Forall sorted srcs -> solve srcs = Some (v, a) ->
  completion srcs [] a /\ v = total a /\
  (forall sigma, completion srcs [] sigma -> v <= total sigma).
Proof. exact solve_optimal. Qed.
Print Assumptions C02_bnb_optimal.
