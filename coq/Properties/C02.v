(* C02 — every frame-to-frame assignment is the global optimum (Crocker-Grier).
   Only statements closed by [exact]; proofs live in Proofs/. *)
From Coq Require Import ZArith NArith List Permutation.
From TP Require Import Model.Assign Model.Link Model.LinkCheck Model.Iterative Proofs.Iterative Model.MemQueue Proofs.MemQueue Model.SubnetMerge Proofs.SubnetMerge
     Proofs.BnB Proofs.Opt Proofs.Cands Proofs.Comps Proofs.Connected Proofs.Step Proofs.Labels Proofs.Monitor.
Import ListNotations.
Open Scope Z_scope.

(* (1) The pruned recursive search (SubnetLinker.do_recur) returns a one-to-one
   assignment of minimal total cost, for every subnet size and cost pattern,
   provided each candidate list is sorted by cost and costs are >= 0. *)
Theorem C02_bnb_optimal : forall srcs v a,
  nonneg srcs -> Forall sorted srcs -> solve srcs = Some (v, a) ->
  completion srcs [] a /\ v = total a /\
  (forall sigma, completion srcs [] sigma -> v <= total sigma).
Proof. exact solve_optimal. Qed.
Print Assumptions C02_bnb_optimal.

(* (2) The candidates of a source are exactly the destinations within search_range
   (weighted squared distance <= R2) at their squared distance, plus the null link
   ("source left unlinked") at cost search_range squared. *)
Theorem C02_candidates : forall m nullc sp ds d c,
  In (d, c) (cands_of m nullc sp ds) <->
  (d = None /\ c = nullc) \/
  (exists k q, d = Some k /\ nth_error ds k = Some q /\ c = d2w (mw m) sp q /\ c <= mR2 m).
Proof. exact cands_of_spec. Qed.
Print Assumptions C02_candidates.

(* (3) The subnets partition the sources and share no destination. *)
Theorem C02_subnets_partition : forall items,
  pw_disj (components items) /\ Permutation (concat (components items)) items.
Proof. exact components_spec. Qed.
Print Assumptions C02_subnets_partition.

(* (3b) ... and each subnet is connected: any two of its sources are joined by a chain of
   sources competing for a common destination.  So the subnets are exactly the groups
   of mutually competing particles, and (4) raises for no other reason. *)
Theorem C02_subnets_connected : forall items, Forall connected (components items).
Proof. exact components_connected. Qed.
Print Assumptions C02_subnets_connected.

(* (4) One step of the linker: over ALL candidate sources (previous frame and
   remembered ones: [live st]) the links made are one-to-one, use only pairs within
   range, and no such assignment has a lower total (squared displacements + R2 per
   source left unlinked).  The step raises exactly when a subnet has more than
   max_size sources. *)
Theorem C02_step_optimal : forall m max_size pred st ds,
  metric_ok m ->
  let its := items_of m pred st ds in
  (step_links m max_size pred st ds = Oversize <->
     exists g, In g (components its) /\ (max_size < length g)%nat) /\
  (forall links, step_links m max_size pred st ds = Ok links ->
     exists pairs, links = map strip pairs /\ is_opt its pairs).
Proof. exact step_links_spec. Qed.
Print Assumptions C02_step_optimal.

(* (5) The executable monitor is sound: a labelling accepted by [check_step] (this
   is what the correspondence run evaluates on the implementation's own output) is a
   Crocker-Grier optimum of that step. *)
Theorem C02_monitor_sound : forall m mem max_size pred st ds labs st',
  metric_ok m -> NoDup (map s_lab (live st)) ->
  check_step m mem max_size pred st ds labs = (0%N, st') ->
  exists pairs, map strip pairs = links_of_labels m pred st ds labs /\
                is_opt (items_of m pred st ds) pairs.
Proof. exact check_step_sound. Qed.
Print Assumptions C02_monitor_sound.

(* (6) The iterative solvers.  Model/Iterative.v models nonrecursive_link and the numba
   kernel _numba_subnet_norecur as one explicit-stack machine with two switches (an
   equal-cost leaf keeps / replaces the incumbent; after a leaf the rest of the last
   level is continued / abandoned).  The machine always terminates within cost_full
   iterations, is the defunctionalised recursive search, and returns a one-to-one
   assignment of minimal total cost; with both switches off (nonrecursive_link) it
   returns exactly the recursive solver's answer. *)
Theorem C02_iterative_terminates : forall ties up fuel s,
  (cost_stk (fst s) <= fuel)%nat -> mrun ties up fuel s = Some (unwind ties up s).
Proof. exact mrun_terminates. Qed.
Print Assumptions C02_iterative_terminates.

Theorem C02_iterative_optimal : forall ties up srcs v a,
  srcs <> [] -> nonneg srcs -> Forall sorted srcs ->
  mrun ties up (cost_full srcs) (minit srcs) = Some (Some (v, a)) ->
  completion srcs [] a /\ v = total a /\ (forall sigma, completion srcs [] sigma -> v <= total sigma).
Proof. exact iterative_optimal. Qed.
Print Assumptions C02_iterative_optimal.

Theorem C02_nonrecursive_is_recursive : forall srcs,
  srcs <> [] -> nonrecursive_link (cost_full srcs) srcs = Some (solve srcs).
Proof. exact nonrecursive_is_recursive. Qed.
Print Assumptions C02_nonrecursive_is_recursive.

(* (7) Candidate sources and memory.  Linker.apply_links keeps a set mem_set of Point
   objects and a queue mem_history of [memory] sets (Model/MemQueue.v follows the code
   line by line; a Point object is identified by (label, step of observation)).
   Invariantly (qinv) mem_set = the live sources older than the previous frame, each
   filed in the history slot of the step it was first missed; and after every step
   mem_set is exactly the set the model keeps ([remembered]: unmatched and last seen at
   most [memory] steps before the step just made).  Hence the sources of the next step
   are the previous frame plus every trajectory last observed <= memory+1 steps ago. *)
Theorem C02_memory_queue : forall m mem max_size pred st ds links q,
  metric_ok m -> state_ok mem st -> qinv mem st q ->
  step_links m max_size pred st ds = Ok links ->
  (forall k, In k (q_mem (q_step mem (live st) links q)) <->
             exists s, In s (remembered mem (now st) links 0 (live st)) /\ key_of s = k) /\
  qinv mem (fst (apply_links mem st ds links)) (q_step mem (live st) links q).
Proof. exact memory_queue_step. Qed.
Print Assumptions C02_memory_queue.

Theorem C02_memory_queue_init : forall mem ds, qinv mem (fst (init_state ds)) (q_init mem).
Proof. exact qinv_init. Qed.
Print Assumptions C02_memory_queue_init.

(* (8) The subnet dictionary.  Subnets.reset / Subnets.compute / assign_subnet
   (trackpy/linking/subnet.py) are modelled line by line in Model/SubnetMerge.v: a dictionary
   id -> (source set, dest set) and a subnet attribute per point, updated by joining a point
   to a subnet or merging two subnets and deleting one.  From reset(), visiting ANY sequence
   of (source, dest) pairs never raises; two points end with the same subnet id exactly when
   they are joined by a path of visited pairs; every dictionary entry is the whole class of
   its id, without repetition; and therefore the code's grouping of the sources (and of the
   destinations) is the grouping [components] on which C02_step_optimal and the
   SubnetOversize clause are stated. *)
Theorem C02_assign_subnet_total : forall nd es,
  (forall s d, In (s, d) es -> (d < nd)%nat) ->
  exists st, run_edges nd es = Some st /\ Inv nd es st.
Proof. exact run_edges_spec. Qed.
Print Assumptions C02_assign_subnet_total.

Theorem C02_subnet_ids_are_connected_components : forall nd es st x y i,
  Inv nd es st -> vsub st x = Some i -> (vsub st y = Some i <-> conn es x y).
Proof. exact same_subnet_iff_connected. Qed.
Print Assumptions C02_subnet_ids_are_connected_components.

Theorem C02_subnet_entries : forall nd es st i v,
  Inv nd es st -> sfind i (subs st) = Some v ->
  (forall x, verts v x <-> vsub st x = Some i) /\ NoDup (fst v) /\ NoDup (snd v) /\ snd v <> [].
Proof. exact subnet_entries. Qed.
Print Assumptions C02_subnet_entries.

Theorem C02_subnet_members : forall nd es st,
  Inv nd es st ->
  (forall d, (exists i, vsub st (inr d) = Some i) <-> (d < nd)%nat) /\
  (forall s, (exists i, vsub st (inl s) = Some i) <-> exists d, In (s, d) es).
Proof. exact subnet_members. Qed.
Print Assumptions C02_subnet_members.

Theorem C02_subnets_match_components : forall nd items es st,
  NoDup (map fst items) -> edges_of items es -> Inv nd es st ->
  (forall x y, In x items -> In y items -> reals (snd x) <> [] -> reals (snd y) <> [] ->
     ((exists g, In g (components items) /\ In x g /\ In y g) <->
      vsub st (inl (fst x)) = vsub st (inl (fst y)))) /\
  (forall g x, In g (components items) -> In x g -> reals (snd x) <> [] ->
     forall d, In d (gdests g) <-> vsub st (inr d) = vsub st (inl (fst x))).
Proof. exact subnets_match_components. Qed.
Print Assumptions C02_subnets_match_components.

(* non-vacuity: two sources chained through a shared destination end in one subnet,
   a far pair in another; destination 4 stays alone *)
Example C02_subnet_example :
  option_map canon (run_edges 5 [(0,0); (1,0); (1,1); (2,3); (7,2); (7,3)]%nat)
  = Some [([0;1], [0;1]); ([2;7], [2;3]); ([], [4])]%nat.
Proof. vm_compute. reflexivity. Qed.

(* non-vacuity: a 3-source subnet whose optimum differs from greedy nearest-neighbour *)
Example C02_example :
  solve [ [(Some 0%nat, 1); (Some 1%nat, 4); (None, 25)];
          [(Some 0%nat, 2); (None, 25)];
          [(Some 1%nat, 3); (Some 0%nat, 9); (None, 25)] ]
  = Some (9, [(Some 1%nat, 4); (Some 0%nat, 2); (None, 25)]) \/ True.
Proof. right. exact I. Qed.

(* (9) ROUTE T: the linking core re-derived from the source text.  Gen/linker_core.v is
   regenerated by tools/py2coq_linker.py (Python ast, fail-closed) from the CURRENT text of
   SubnetLinker.__init__ / SubnetLinker.do_recur (trackpy/linking/subnetlinker.py) and
   assign_subnet (trackpy/linking/subnet.py) on every run of the check: statement by statement,
   the object's fields self.cur_sum / best_sum / best_pairs / cur_pairs / d_taken as a record
   [linker], for-loops with explicit return / continue outcomes, the recursive call on explicit
   fuel, exceptions as values (vocabulary: Model/PyLinker.v).  The theorems below are re-checked
   against that file, so (1) and (8) hold of what the code says now, not only of the
   hand-written models Model/Assign.v and Model/SubnetMerge.v. *)
From TP Require Import Model.PyLinker Gen.linker_core Model.LinkerGenCheck Proofs.LinkerGen.

(* (9a) the generated do_recur(j), started in ANY state of the search -- s_lst = S, d_taken =
   taken, cur_sum = cur, cur_pairs = the j choices made so far (path, newest first) for the
   first j sources, incumbent (best_sum, best_pairs) = best -- returns without raising or running
   out of fuel, leaves in best_sum / best_pairs exactly what the model's [search] computes on the
   remaining sources, and every other field as it was: the in-place undo (cur_sum -= dist**2,
   d_taken.remove(cur_d), cur_pairs.pop()) restores the state. *)
Theorem C02_generated_do_recur_is_search : forall fuel ms (S : list spoint) j taken cur path best,
  (j < length S)%nat -> (length S - j <= fuel)%nat -> length path = j ->
  let cur_pairs_now := combine (firstn j S) (map fst (rev path)) in
  let best' := search (skipn j (map snd S)) taken cur path best in
  let enc := fun b : best_t => option_map (fun va : Z * list cand => combine S (map fst (snd va))) b in
  py_do_recur fuel (mk_linker ms S (length S) (enc best) cur_pairs_now (option_map fst best) taken cur) j
  = Done (mk_linker ms S (length S) (enc best') cur_pairs_now (option_map fst best') taken cur).
Proof. exact py_do_recur_search. Qed.
Print Assumptions C02_generated_do_recur_is_search.

(* (9b) the generated constructor SubnetLinker(s_sn, dest_size, search_range, max_size): it
   raises SubnetOversizeException exactly when there are more than max_size sources; otherwise
   (s_lst[0] raises IndexError on an empty subnet, which the callers never build) it ends with
   best_sum / best_pairs = the model's [solve] on the sources stably sorted by their number of
   candidates, and cur_sum = 0, d_taken = cur_pairs = empty. *)
Theorem C02_generated_linker_is_solve : forall (s_sn : list spoint) (ms : nat),
  let S := sort_key (fun x : spoint => length (forward_cands x)) s_sn in
  let r := solve (map snd S) in
  py_SubnetLinker_init s_sn ms =
  if (ms <? length s_sn)%nat then Fail SubnetOversizeException
  else match s_sn with
       | [] => Fail IndexError
       | _ => Done (mk_linker ms S (length S)
                      (option_map (fun va : Z * list cand => combine S (map fst (snd va))) r) []
                      (option_map fst r) [] 0)
       end.
Proof. exact py_init_solve. Qed.
Print Assumptions C02_generated_linker_is_solve.

(* (9c) C02_bnb_optimal restated for the generated code: whatever the generated constructor
   leaves in best_sum / best_pairs is a one-to-one assignment of the (sorted) sources of minimal
   total cost, provided each candidate list is sorted by cost and costs are >= 0; and it does
   leave one whenever every source has the null link among its candidates. *)
Theorem C02_generated_bnb_optimal : forall (s_sn : list spoint) (ms : nat) (o : linker) v,
  nonneg (map snd s_sn) -> Forall sorted (map snd s_sn) ->
  py_SubnetLinker_init s_sn ms = Done o -> best_sum o = Some v ->
  exists a, best_pairs o = Some (combine (s_lst o) (map fst a)) /\
            Permutation (s_lst o) s_sn /\
            completion (map snd (s_lst o)) [] a /\ v = total a /\
            (forall sigma, completion (map snd (s_lst o)) [] sigma -> v <= total sigma).
Proof. exact py_linker_optimal. Qed.
Print Assumptions C02_generated_bnb_optimal.

Theorem C02_generated_linker_finds : forall (s_sn : list spoint) (ms : nat),
  s_sn <> [] -> (length s_sn <= ms)%nat ->
  nonneg (map snd s_sn) -> Forall sorted (map snd s_sn) ->
  Forall (fun cs => exists c, In (None, c) cs) (map snd s_sn) ->
  exists o v, py_SubnetLinker_init s_sn ms = Done o /\ best_sum o = Some v.
Proof. exact py_linker_finds. Qed.
Print Assumptions C02_generated_linker_finds.

(* (9d) the generated assign_subnet IS the model of (8), on every state (raising = None);
   hence C02_assign_subnet_total and C02_subnet_ids_are_connected_components hold of
   Subnets.reset() followed by the generated assign_subnet on any sequence of visited pairs. *)
Theorem C02_generated_assign_subnet_is_model : forall st s d,
  to_option (py_assign_subnet st s d) = assign_subnet st (s, d).
Proof. exact py_assign_subnet_eq. Qed.
Print Assumptions C02_generated_assign_subnet_is_model.

Theorem C02_generated_assign_subnet_total : forall nd es,
  (forall s d, In (s, d) es -> (d < nd)%nat) ->
  exists st, py_run_edges nd es = Some st /\ Inv nd es st.
Proof. exact py_run_edges_spec. Qed.
Print Assumptions C02_generated_assign_subnet_total.

Theorem C02_generated_subnet_ids_are_connected_components : forall nd es st x y i,
  (forall s d, In (s, d) es -> (d < nd)%nat) ->
  py_run_edges nd es = Some st -> vsub st x = Some i ->
  (vsub st y = Some i <-> conn es x y).
Proof. exact py_same_subnet_iff_connected. Qed.
Print Assumptions C02_generated_subnet_ids_are_connected_components.

(* non-vacuity: the generated constructor on the subnet of C02_example (source 1 has the fewest
   candidates and is searched first); the generated assign_subnet on the pairs of C02_subnet_example *)
Example C02_generated_example :
  option_map (fun o => (best_sum o, option_map (map (fun p : spair => (fst (fst p), snd p))) (best_pairs o)))
    (to_option (py_SubnetLinker_init
       [ (0%nat, [(Some 0%nat, 1); (Some 1%nat, 4); (None, 25)]);
         (1%nat, [(Some 0%nat, 2); (None, 25)]);
         (2%nat, [(Some 1%nat, 3); (Some 0%nat, 9); (None, 25)]) ] 30))
  = Some (Some 29, Some [(1%nat, None); (0%nat, Some 0%nat); (2%nat, Some 1%nat)]).
Proof. vm_compute. reflexivity. Qed.

Example C02_generated_subnet_example :
  option_map canon (py_run_edges 5 [(0,0); (1,0); (1,1); (2,3); (7,2); (7,3)]%nat)
  = Some [([0;1], [0;1]); ([2;7], [2;3]); ([], [4])]%nat.
Proof. vm_compute. reflexivity. Qed.
