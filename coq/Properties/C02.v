(* C02 — every frame-to-frame assignment is the global optimum (Crocker-Grier).
   Only statements closed by [exact]; proofs live in Proofs/. *)
From Coq Require Import ZArith NArith List Permutation.
From TP Require Import Model.Assign Model.Link Model.LinkCheck Model.Iterative Proofs.Iterative Model.MemQueue Proofs.MemQueue Model.SubnetMerge Proofs.SubnetMerge
     Proofs.BnB Proofs.Opt Proofs.Cands Proofs.Comps Proofs.Connected Proofs.Step Proofs.Labels Proofs.Monitor.
Import ListNotations.
Open Scope Z_scope.

(* (1) The pruned recursive search (SubnetLinker.do_recur) returns a one-to-one
   assignment of minimal total cost, for every subnet size and cost pattern,
   provided each candidate list is sorted by cost and costs are >= 0. *)
Theorem C02_bnb_optimal : forall srcs v a,
  nonneg srcs -> Forall sorted srcs -> solve srcs = Some (v, a) ->
  completion srcs [] a /\ v = total a /\
  (forall sigma, completion srcs [] sigma -> v <= total sigma).
Proof. exact solve_optimal. Qed.
Print Assumptions C02_bnb_optimal.

(* (2) The candidates of a source are exactly the destinations within search_range
   (weighted squared distance <= R2) at their squared distance, plus the null link
   ("source left unlinked") at cost search_range squared. *)
Theorem C02_candidates : forall m nullc sp ds d c,
  In (d, c) (cands_of m nullc sp ds) <->
  (d = None /\ c = nullc) \/
  (exists k q, d = Some k /\ nth_error ds k = Some q /\ c = d2w (mw m) sp q /\ c <= mR2 m).
Proof. exact cands_of_spec. Qed.
Print Assumptions C02_candidates.

(* (3) The subnets partition the sources and share no destination. *)
Theorem C02_subnets_partition : forall items,
  pw_disj (components items) /\ Permutation (concat (components items)) items.
Proof. exact components_spec. Qed.
Print Assumptions C02_subnets_partition.

(* (3b) ... and each subnet is connected: any two of its sources are joined by a chain of
   sources competing for a common destination.  So the subnets are exactly the groups
   of mutually competing particles, and (4) raises for no other reason. *)
Theorem C02_subnets_connected : forall items, Forall connected (components items).
Proof. exact components_connected. Qed.
Print Assumptions C02_subnets_connected.

(* (4) One step of the linker: over ALL candidate sources (previous frame and
   remembered ones: [live st]) the links made are one-to-one, use only pairs within
   range, and no such assignment has a lower total (squared displacements + R2 per
   source left unlinked).  The step raises exactly when a subnet has more than
   max_size sources. *)
Theorem C02_step_optimal : forall m max_size pred st ds,
  metric_ok m ->
  let its := items_of m pred st ds in
  (step_links m max_size pred st ds = Oversize <->
     exists g, In g (components its) /\ (max_size < length g)%nat) /\
  (forall links, step_links m max_size pred st ds = Ok links ->
     exists pairs, links = map strip pairs /\ is_opt its pairs).
Proof. exact step_links_spec. Qed.
Print Assumptions C02_step_optimal.

(* (5) The executable monitor is sound: a labelling accepted by [check_step] (this
   is what the correspondence run evaluates on the implementation's own output) is a
   Crocker-Grier optimum of that step. *)
Theorem C02_monitor_sound : forall m mem max_size pred st ds labs st',
  metric_ok m -> NoDup (map s_lab (live st)) ->
  check_step m mem max_size pred st ds labs = (0%N, st') ->
  exists pairs, map strip pairs = links_of_labels m pred st ds labs /\
                is_opt (items_of m pred st ds) pairs.
Proof. exact check_step_sound. Qed.
Print Assumptions C02_monitor_sound.

(* (6) The iterative solvers.  Model/Iterative.v models nonrecursive_link and the numba
   kernel _numba_subnet_norecur as one explicit-stack machine with two switches (an
   equal-cost leaf keeps / replaces the incumbent; after a leaf the rest of the last
   level is continued / abandoned).  The machine always terminates within cost_full
   iterations, is the defunctionalised recursive search, and returns a one-to-one
   assignment of minimal total cost; with both switches off (nonrecursive_link) it
   returns exactly the recursive solver's answer. *)
Theorem C02_iterative_terminates : forall ties up fuel s,
  (cost_stk (fst s) <= fuel)%nat -> mrun ties up fuel s = Some (unwind ties up s).
Proof. exact mrun_terminates. Qed.
Print Assumptions C02_iterative_terminates.

Theorem C02_iterative_optimal : forall ties up srcs v a,
  srcs <> [] -> nonneg srcs -> Forall sorted srcs ->
  mrun ties up (cost_full srcs) (minit srcs) = Some (Some (v, a)) ->
  completion srcs [] a /\ v = total a /\ (forall sigma, completion srcs [] sigma -> v <= total sigma).
Proof. exact iterative_optimal. Qed.
Print Assumptions C02_iterative_optimal.

Theorem C02_nonrecursive_is_recursive : forall srcs,
  srcs <> [] -> nonrecursive_link (cost_full srcs) srcs = Some (solve srcs).
Proof. exact nonrecursive_is_recursive. Qed.
Print Assumptions C02_nonrecursive_is_recursive.

(* (7) Candidate sources and memory.  Linker.apply_links keeps a set mem_set of Point
   objects and a queue mem_history of [memory] sets (Model/MemQueue.v follows the code
   line by line; a Point object is identified by (label, step of observation)).
   Invariantly (qinv) mem_set = the live sources older than the previous frame, each
   filed in the history slot of the step it was first missed; and after every step
   mem_set is exactly the set the model keeps ([remembered]: unmatched and last seen at
   most [memory] steps before the step just made).  Hence the sources of the next step
   are the previous frame plus every trajectory last observed <= memory+1 steps ago. *)
Theorem C02_memory_queue : forall m mem max_size pred st ds links q,
  metric_ok m -> state_ok mem st -> qinv mem st q ->
  step_links m max_size pred st ds = Ok links ->
  (forall k, In k (q_mem (q_step mem (live st) links q)) <->
             exists s, In s (remembered mem (now st) links 0 (live st)) /\ key_of s = k) /\
  qinv mem (fst (apply_links mem st ds links)) (q_step mem (live st) links q).
Proof. exact memory_queue_step. Qed.
Print Assumptions C02_memory_queue.

Theorem C02_memory_queue_init : forall mem ds, qinv mem (fst (init_state ds)) (q_init mem).
Proof. exact qinv_init. Qed.
Print Assumptions C02_memory_queue_init.

(* (8) The subnet dictionary.  Subnets.reset / Subnets.compute / assign_subnet
   (trackpy/linking/subnet.py) are modelled line by line in Model/SubnetMerge.v: a dictionary
   id -> (source set, dest set) and a subnet attribute per point, updated by joining a point
   to a subnet or merging two subnets and deleting one.  From reset(), visiting ANY sequence
   of (source, dest) pairs never raises; two points end with the same subnet id exactly when
   they are joined by a path of visited pairs; every dictionary entry is the whole class of
   its id, without repetition; and therefore the code's grouping of the sources (and of the
   destinations) is the grouping [components] on which C02_step_optimal and the
   SubnetOversize clause are stated. *)
Theorem C02_assign_subnet_total : forall nd es,
  (forall s d, In (s, d) es -> (d < nd)%nat) ->
  exists st, run_edges nd es = Some st /\ Inv nd es st.
Proof. exact run_edges_spec. Qed.
Print Assumptions C02_assign_subnet_total.

Theorem C02_subnet_ids_are_connected_components : forall nd es st x y i,
  Inv nd es st -> vsub st x = Some i -> (vsub st y = Some i <-> conn es x y).
Proof. exact same_subnet_iff_connected. Qed.
Print Assumptions C02_subnet_ids_are_connected_components.

Theorem C02_subnet_entries : forall nd es st i v,
  Inv nd es st -> sfind i (subs st) = Some v ->
  (forall x, verts v x <-> vsub st x = Some i) /\ NoDup (fst v) /\ NoDup (snd v) /\ snd v <> [].
Proof. exact subnet_entries. Qed.
Print Assumptions C02_subnet_entries.

Theorem C02_subnet_members : forall nd es st,
  Inv nd es st ->
  (forall d, (exists i, vsub st (inr d) = Some i) <-> (d < nd)%nat) /\
  (forall s, (exists i, vsub st (inl s) = Some i) <-> exists d, In (s, d) es).
Proof. exact subnet_members. Qed.
Print Assumptions C02_subnet_members.

Theorem C02_subnets_match_components : forall nd items es st,
  NoDup (map fst items) -> edges_of items es -> Inv nd es st ->
  (forall x y, In x items -> In y items -> reals (snd x) <> [] -> reals (snd y) <> [] ->
     ((exists g, In g (components items) /\ In x g /\ In y g) <->
      vsub st (inl (fst x)) = vsub st (inl (fst y)))) /\
  (forall g x, In g (components items) -> In x g -> reals (snd x) <> [] ->
     forall d, In d (gdests g) <-> vsub st (inr d) = vsub st (inl (fst x))).
Proof. exact subnets_match_components. Qed.
Print Assumptions C02_subnets_match_components.

(* non-vacuity: two sources chained through a shared destination end in one subnet,
   a far pair in another; destination 4 stays alone *)
Example C02_subnet_example :
  option_map canon (run_edges 5 [(0,0); (1,0); (1,1); (2,3); (7,2); (7,3)]%nat)
  = Some [([0;1], [0;1]); ([2;7], [2;3]); ([], [4])]%nat.
Proof. vm_compute. reflexivity. Qed.

(* non-vacuity: a 3-source subnet whose optimum differs from greedy nearest-neighbour *)
Example C02_example :
  solve [ [(Some 0%nat, 1); (Some 1%nat, 4); (None, 25)];
          [(Some 0%nat, 2); (None, 25)];
          [(Some 1%nat, 3); (Some 0%nat, 9); (None, 25)] ]
  = Some (9, [(Some 1%nat, 4); (Some 0%nat, 2); (None, 25)]) \/ True.
Proof. right. exact I. Qed.

(* (9) ROUTE T: the linking core re-derived from the source text.  Gen/linker_core.v is
   regenerated by tools/py2coq_linker.py (Python ast, fail-closed) from the CURRENT text of
   SubnetLinker.__init__ / SubnetLinker.do_recur (trackpy/linking/subnetlinker.py) and
   assign_subnet (trackpy/linking/subnet.py) on every run of the check: statement by statement,
   the object's fields self.cur_sum / best_sum / best_pairs / cur_pairs / d_taken as a record
   [linker], for-loops with explicit return / continue outcomes, the recursive call on explicit
   fuel, exceptions as values (vocabulary: Model/PyLinker.v).  The theorems below are re-checked
   against that file, so (1) and (8) hold of what the code says now, not only of the
   hand-written models Model/Assign.v and Model/SubnetMerge.v. *)
From TP Require Import Model.PyLinker Gen.linker_core Model.LinkerGenCheck Proofs.LinkerGen.

(* (9a) the generated do_recur(j), started in ANY state of the search -- s_lst = S, d_taken =
   taken, cur_sum = cur, cur_pairs = the j choices made so far (path, newest first) for the
   first j sources, incumbent (best_sum, best_pairs) = best -- returns without raising or running
   out of fuel, leaves in best_sum / best_pairs exactly what the model's [search] computes on the
   remaining sources, and every other field as it was: the in-place undo (cur_sum -= dist**2,
   d_taken.remove(cur_d), cur_pairs.pop()) restores the state. *)
Theorem C02_generated_do_recur_is_search : forall fuel ms (S : list spoint) j taken cur path best,
  (j < length S)%nat -> (length S - j <= fuel)%nat -> length path = j ->
  let cur_pairs_now := combine (firstn j S) (map fst (rev path)) in
  let best' := search (skipn j (map snd S)) taken cur path best in
  let enc := fun b : best_t => option_map (fun va : Z * list cand => combine S (map fst (snd va))) b in
  py_do_recur fuel (mk_linker ms S (length S) (enc best) cur_pairs_now (option_map fst best) taken cur) j
  = Done (mk_linker ms S (length S) (enc best') cur_pairs_now (option_map fst best') taken cur).
Proof. exact py_do_recur_search. Qed.
Print Assumptions C02_generated_do_recur_is_search.

(* (9b) the generated constructor SubnetLinker(s_sn, dest_size, search_range, max_size): it
   raises SubnetOversizeException exactly when there are more than max_size sources; otherwise
   (s_lst[0] raises IndexError on an empty subnet, which the callers never build) it ends with
   best_sum / best_pairs = the model's [solve] on the sources stably sorted by their number of
   candidates, and cur_sum = 0, d_taken = cur_pairs = empty. *)
Theorem C02_generated_linker_is_solve : forall (s_sn : list spoint) (ms : nat),
  let S := sort_key (fun x : spoint => length (forward_cands x)) s_sn in
  let r := solve (map snd S) in
  py_SubnetLinker_init s_sn ms =
  if (ms <? length s_sn)%nat then Fail SubnetOversizeException
  else match s_sn with
       | [] => Fail IndexError
       | _ => Done (mk_linker ms S (length S)
                      (option_map (fun va : Z * list cand => combine S (map fst (snd va))) r) []
                      (option_map fst r) [] 0)
       end.
Proof. exact py_init_solve. Qed.
Print Assumptions C02_generated_linker_is_solve.

(* (9c) C02_bnb_optimal restated for the generated code: whatever the generated constructor
   leaves in best_sum / best_pairs is a one-to-one assignment of the (sorted) sources of minimal
   total cost, provided each candidate list is sorted by cost and costs are >= 0; and it does
   leave one whenever every source has the null link among its candidates. *)
Theorem C02_generated_bnb_optimal : forall (s_sn : list spoint) (ms : nat) (o : linker) v,
  nonneg (map snd s_sn) -> Forall sorted (map snd s_sn) ->
  py_SubnetLinker_init s_sn ms = Done o -> best_sum o = Some v ->
  exists a, best_pairs o = Some (combine (s_lst o) (map fst a)) /\
            Permutation (s_lst o) s_sn /\
            completion (map snd (s_lst o)) [] a /\ v = total a /\
            (forall sigma, completion (map snd (s_lst o)) [] sigma -> v <= total sigma).
Proof. exact py_linker_optimal. Qed.
Print Assumptions C02_generated_bnb_optimal.

Theorem C02_generated_linker_finds : forall (s_sn : list spoint) (ms : nat),
  s_sn <> [] -> (length s_sn <= ms)%nat ->
  nonneg (map snd s_sn) -> Forall sorted (map snd s_sn) ->
  Forall (fun cs => exists c, In (None, c) cs) (map snd s_sn) ->
  exists o v, py_SubnetLinker_init s_sn ms = Done o /\ best_sum o = Some v.
Proof. exact py_linker_finds. Qed.
Print Assumptions C02_generated_linker_finds.

(* (9d) the generated assign_subnet IS the model of (8), on every state (raising = None);
   hence C02_assign_subnet_total and C02_subnet_ids_are_connected_components hold of
   Subnets.reset() followed by the generated assign_subnet on any sequence of visited pairs. *)
Theorem C02_generated_assign_subnet_is_model : forall st s d,
  to_option (py_assign_subnet st s d) = assign_subnet st (s, d).
Proof. exact py_assign_subnet_eq. Qed.
Print Assumptions C02_generated_assign_subnet_is_model.

Theorem C02_generated_assign_subnet_total : forall nd es,
  (forall s d, In (s, d) es -> (d < nd)%nat) ->
  exists st, py_run_edges nd es = Some st /\ Inv nd es st.
Proof. exact py_run_edges_spec. Qed.
Print Assumptions C02_generated_assign_subnet_total.

Theorem C02_generated_subnet_ids_are_connected_components : forall nd es st x y i,
  (forall s d, In (s, d) es -> (d < nd)%nat) ->
  py_run_edges nd es = Some st -> vsub st x = Some i ->
  (vsub st y = Some i <-> conn es x y).
Proof. exact py_same_subnet_iff_connected. Qed.
Print Assumptions C02_generated_subnet_ids_are_connected_components.

(* non-vacuity: the generated constructor on the subnet of C02_example (source 1 has the fewest
   candidates and is searched first); the generated assign_subnet on the pairs of C02_subnet_example *)
Example C02_generated_example :
  option_map (fun o => (best_sum o, option_map (map (fun p : spair => (fst (fst p), snd p))) (best_pairs o)))
    (to_option (py_SubnetLinker_init
       [ (0%nat, [(Some 0%nat, 1); (Some 1%nat, 4); (None, 25)]);
         (1%nat, [(Some 0%nat, 2); (None, 25)]);
         (2%nat, [(Some 1%nat, 3); (Some 0%nat, 9); (None, 25)]) ] 30))
  = Some (Some 29, Some [(1%nat, None); (0%nat, Some 0%nat); (2%nat, Some 1%nat)]).
Proof. vm_compute. reflexivity. Qed.

Example C02_generated_subnet_example :
  option_map canon (py_run_edges 5 [(0,0); (1,0); (1,1); (2,3); (7,2); (7,3)]%nat)
  = Some [([0;1], [0;1]); ([2;7], [2;3]); ([], [4])]%nat.
Proof. vm_compute. reflexivity. Qed.

(* (10) ROUTE T, the per-step bookkeeping of the Linker.  Gen/linkstep.v is regenerated by
   tools/py2coq_linkstep.py (Python ast, fail-closed; vocabulary Model/PyLinkstep.v) from the CURRENT
   text of Subnets.__init__ / reset / compute / __iter__ / lost (trackpy/linking/subnet.py),
   subnet_linker_recursive (subnetlinker.py) and Linker.next_level / assign_links / apply_links /
   particle_ids (linking.py) on every run of the check.  One world record [lk] stands for the Linker,
   its Subnets object and the mutable attributes of the Points of the step (points are their indices,
   as in (8) and (9)); the KD-tree query is the parameter [q] (per destination its sources within
   range with the squared distance), the iteration order of Python sets the parameter [ord].  The
   generated code CALLS the generated assign_subnet and SubnetLinker constructor of (9). *)
From TP Require Import Model.PyLinkstep Gen.linkstep Proofs.LinkstepGen Proofs.LinkstepGen2 Proofs.LinkstepApply.

(* (10a) Subnets(prev_hash, self.hash, ...) = reset(); compute().  From ANY world -- whatever subnet
   dictionary and stale .subnet attributes earlier steps left -- and any query result whose rows are the
   destinations and whose source indices exist, the generated code does not raise, and leaves
     - a subnet heap that agrees with the model's run_edges (8) on the visited (source, dest) pairs in
       the order dest-major / nearest first: the SAME dictionary, the same .subnet attribute on every
       point of the two frames ([mst_sim]); so [Inv] and all of (8) hold of it;
     - in every source's forward_cands exactly the (dest, dist**2) of the pairs it occurs in, in
       destination order;   - includes_lost = False, everything else of the Linker untouched. *)
Theorem C02_generated_subnets_init : forall (q : kdq) (w : lk),
  length q = length (k_dests w) ->
  (forall e, In e (qedges q) -> (fst (fst e) < length (k_srcs w))%nat) ->
  let ns := length (k_srcs w) in let nd := length (k_dests w) in
  let es := map edge_of (qedges q) in
  exists w2 m2, py_Subnets_init q w = FDone w2 tt
    /\ run_edges nd es = Some m2 /\ Inv nd es m2 /\ mst_sim ns nd (k_mst w2) m2
    /\ (forall s, (s < ns)%nat -> get_forward_cands w2 s = fcs_of s (qedges q))
    /\ k_includes_lost w2 = false
    /\ k_srcs w2 = k_srcs w /\ k_dests w2 = k_dests w /\ k_now w2 = k_now w /\ k_dtrack w2 = k_dtrack w
    /\ k_mem_set w2 = k_mem_set w /\ k_mem_history w2 = k_mem_history w /\ k_memory w2 = k_memory w
    /\ k_counter w2 = k_counter w /\ k_max_size w2 = k_max_size w /\ k_R2 w2 = k_R2 w.
Proof. exact gen_subnets_init. Qed.
Print Assumptions C02_generated_subnets_init.

(* (10b) C02_subnet_ids_are_connected_components for the generated Subnets(...): two points of the two
   frames carry the same subnet id exactly when a chain of candidate pairs joins them. *)
Theorem C02_generated_subnets_connected : forall (q : kdq) (w w2 : lk) x y i,
  length q = length (k_dests w) ->
  (forall e, In e (qedges q) -> (fst (fst e) < length (k_srcs w))%nat) ->
  py_Subnets_init q w = FDone w2 tt ->
  in_frames (length (k_srcs w)) (length (k_dests w)) x -> in_frames (length (k_srcs w)) (length (k_dests w)) y ->
  vsub (k_mst w2) x = Some i ->
  (vsub (k_mst w2) y = Some i <-> conn (map edge_of (qedges q)) x y).
Proof. exact gen_subnets_connected. Qed.
Print Assumptions C02_generated_subnets_connected.

(* (10c) One subnet in Linker.assign_links.  For an entry (source_set S, dest_set Dd) of the dictionary
   that is not one of the shortcut shapes (one source and at most one destination; no source), with S
   without repetition and ANY iteration order of the Python sets, the generated sort loop
   `for sp in source_set: sp.forward_cands.sort(key=lambda x: x[1])` followed by the generated
   subnet_linker_recursive (null candidate (None, search_range) appended to every source, the generated
   SubnetLinker constructor of (9), zip of best_pairs, one (None, dp) per unclaimed destination) IS the
   model's solve_group on the group [(s, sorted candidates of s ++ [null])], s in S in iteration order:
   SubnetOversizeException exactly where the model says Oversize, otherwise the model's links followed by
   the unclaimed destinations; forward_cands change only on S, nothing else changes. *)
Theorem C02_generated_subnet_is_solve_group : forall (ord : list nat -> list nat),
  (forall l, Permutation (ord l) l) -> forall (w : lk) (S Dd : list nat),
  NoDup S -> S <> [] ->
  (andb (Nat.eqb (length S) 1) (Nat.eqb (length Dd) 1) = false) ->
  (andb (Nat.eqb (length S) 1) (Nat.eqb (length Dd) 0) = false) ->
  let g := map (raw_item w) (ord S) in
  Forall item_ok g ->
  exists w2,
    py_subnet_linker_recursive ord (sort_loop ord w S) S Dd (k_R2 w) (k_max_size w)
    = match solve_group (k_max_size w) g with
      | Oversize => FFail XSubnetOversizeException
      | Ok l => let U := set_iter ord (nset_diff Dd (somes (links_dst l))) in
                FDone w2 (links_src l ++ map (fun _ => None) U, links_dst l ++ map Some U)
      end
    /\ same_frame w w2 /\ k_mst w2 = k_mst w
    /\ forall s, get_forward_cands w2 s = if existsb (Nat.eqb s) S then snd (raw_item w s) else get_forward_cands w s.
Proof. exact gen_entry_solve. Qed.
Print Assumptions C02_generated_subnet_is_solve_group.

(* (10d) ... hence C02_bnb_optimal and the size clause of the property for what the generated code does
   with a subnet: it raises SubnetOversizeException exactly when the subnet has more than
   MAX_SUB_NET_SIZE sources, and otherwise the (source, destination or None) links it returns are a
   one-to-one assignment of the subnet's sources of minimal total cost ([is_opt], as in (4)), followed
   by the destinations of the subnet nobody claimed (new trajectories). *)
Theorem C02_generated_subnet_optimal : forall (ord : list nat -> list nat),
  (forall l, Permutation (ord l) l) -> forall (w : lk) (S Dd : list nat),
  NoDup S -> S <> [] ->
  (andb (Nat.eqb (length S) 1) (Nat.eqb (length Dd) 1) = false) ->
  (andb (Nat.eqb (length S) 1) (Nat.eqb (length Dd) 0) = false) ->
  let g := map (raw_item w) (ord S) in
  Forall item_ok g ->
  (py_subnet_linker_recursive ord (sort_loop ord w S) S Dd (k_R2 w) (k_max_size w) = FFail XSubnetOversizeException
     <-> (k_max_size w < length S)%nat) /\
  (forall w2 spl dpl, py_subnet_linker_recursive ord (sort_loop ord w S) S Dd (k_R2 w) (k_max_size w) = FDone w2 (spl, dpl) ->
     exists pairs U, is_opt g pairs
       /\ spl = links_src (map strip pairs) ++ map (fun _ => None) U
       /\ dpl = links_dst (map strip pairs) ++ map Some U
       /\ Permutation U (nset_diff Dd (somes (links_dst (map strip pairs))))).
Proof. exact gen_entry_optimal. Qed.
Print Assumptions C02_generated_subnet_optimal.

(* (10e) Linker.apply_links.  Let the world stand for the model state st (k_srcs = live st, fresh
   destination points) and the queue q of (7) (mem_set / mem_history as sets of (label, frame) keys), and
   let (spl, dpl) be any pairing in which no pair is (None, None), sources are in range and no destination
   occurs twice.  Then the generated apply_links does not raise; a linked destination gets the label of its
   source, an unclaimed one the next fresh ids in the order of the list; mem_set and every slot of
   mem_history are, as sets, exactly what the model's q_step of (7) keeps -- so C02_memory_queue speaks
   about the generated code --; forward_cands of every source are emptied; nothing else changes. *)
Theorem C02_generated_apply_links : forall (w : lk) (spl dpl : list (option nat)) (st : lstate) (q : qstate),
  k_srcs w = live st -> k_dtrack w = [] ->
  q_mem q = map key_of (k_mem_set w) -> q_hist q = map (map key_of) (k_mem_history w) ->
  (k_memory w <= length (k_mem_history w))%nat ->
  length spl = length dpl ->
  (forall sd, In sd (combine spl dpl) -> sd <> (None, None)) ->
  NoDup (somes spl) -> (forall s, In s (somes spl) -> (s < length (live st))%nat) ->
  NoDup (somes dpl) ->
  NoDup (map key_of (live st)) ->
  exists w', py_Linker_apply_links w spl dpl = FDone w' tt /\
    k_counter w' = (k_counter w + length (births spl dpl))%nat /\
    (forall j, In j (somes dpl) ->
       alook j (k_dtrack w') = Some (match source_of (links_of spl dpl) j with
                                     | Some i => lab_of st i
                                     | None => (k_counter w + index_of j (births spl dpl))%nat end)) /\
    (forall j, ~ In j (somes dpl) -> alook j (k_dtrack w') = None) /\
    (forall k, In k (map key_of (k_mem_set w')) <-> In k (q_mem (q_step (k_memory w) (live st) (links_of spl dpl) q))) /\
    Forall2 (fun (a : list src) (b : list Model.MemQueue.key) => forall k, In k (map key_of a) <-> In k b)
            (k_mem_history w') (q_hist (q_step (k_memory w) (live st) (links_of spl dpl) q)) /\
    (forall p, get_forward_cands w' p = if existsb (Nat.eqb p) (somes spl) then [] else get_forward_cands w p) /\
    k_srcs w' = k_srcs w /\ k_dests w' = k_dests w /\ k_now w' = k_now w /\ k_mst w' = k_mst w /\
    k_memory w' = k_memory w /\ k_max_size w' = k_max_size w /\ k_R2 w' = k_R2 w /\ k_includes_lost w' = k_includes_lost w.
Proof. exact gen_apply_links_spec. Qed.
Print Assumptions C02_generated_apply_links.

(* non-vacuity: one generated next_level step.  Three tracks 0 1 2 at 0, 10, 20; new frame at 1, 12, 40
   (search_range 5, memory 1): sources 0 and 1 compete for destinations 0 and 1 (one subnet, solved by the
   generated SubnetLinker), destination 2 starts trajectory 3, source 2 is lost and remembered.  The world
   starts with a stale dictionary flag and stale .subnet attributes, which reset() overwrites. *)
Example C02_generated_step_example :
  let w0 := mk_lk [] [[0];[10];[20]] 0 [] {| subs := []; ssub := [(7,3)%nat]; dsub := [(0,5)%nat] |} true
                  [(0,0);(1,1);(2,2)]%nat [] [[]] 1 3 30 25 in
  match py_Linker_next_level (fun l => l) (fun l => l) [[(0%nat,1);(1%nat,16)]; [(0%nat,9);(1%nat,4)]; []] w0 [[1];[12];[40]] 1 with
  | FDone w _ => Some (match py_Linker_particle_ids w with FDone _ l => l | FFail _ => [] end,
                       map key_of (k_mem_set w), k_counter w, map fst (subs (k_mst w)))
  | FFail _ => None
  end
  = Some ([0; 1; 3]%nat, [(2, 0)%nat], 4%nat, [1; 2]%nat).
Proof. vm_compute. reflexivity. Qed.

(* (10f) Linker.assign_links is the loop over the subnet dictionary in insertion order -- for every entry
   the sort loop and the subnet linker of (10c), the (source, destination) lists concatenated -- followed
   by the sources without subnet (Subnets.lost, ValueError when lost particles were included), each paired
   with None; Linker.next_level is update_hash, Subnets(...) (10a), assign_links, apply_links (10e).  So a
   change to either def's loop structure, order of statements or collection of spl / dpl breaks these
   equalities. *)
Theorem C02_generated_assign_links : forall (ord : list nat -> list nat) (w : lk),
  py_Linker_assign_links ord w
  = match entries_run ord (dict_values w) w [] [] with
    | FFail x => FFail x
    | FDone w' v =>
      if k_includes_lost w' then FFail XValueError
      else let lost := filter (subnet_is_none w') (source_points w') in
           FDone w' (fst v ++ map Some lost, snd v ++ repeat None (length lost))
    end.
Proof. exact gen_assign_links_eq. Qed.
Print Assumptions C02_generated_assign_links.

Theorem C02_generated_next_level : forall ord ordp (q : kdq) (w : lk) coords t,
  py_Linker_next_level ord ordp q w coords t
  = match py_Subnets_init q (update_hash_abs ordp w coords t) with
    | FFail x => FFail x
    | FDone w1 _ =>
      match py_Linker_assign_links ord w1 with
      | FFail x => FFail x
      | FDone w2 v =>
        match py_Linker_apply_links w2 (fst v) (snd v) with
        | FFail x => FFail x
        | FDone w3 _ => FDone w3 tt
        end
      end
    end.
Proof. exact gen_next_level_eq. Qed.
Print Assumptions C02_generated_next_level.

(* (11) ROUTE T, WHOLE-STEP OPTIMALITY OF THE GENERATED STEP (Proofs/LinkstepOpt.v): the generated analogue of
   C02_step_optimal.  (10c)/(10d) cover one non-shortcut subnet under a free hypothesis item_ok; here the two
   shortcut returns of subnet_linker_recursive, the composition over the dictionary (for ANY iteration order of
   the Python sets and any dictionary order) and the origin of item_ok are proved. *)
From TP Require Import Proofs.LinkstepOpt.

(* (11a) The one-source / one-destination shortcut `return [source_set.pop()], [dest_set.pop()]` links without
   any search.  It is optimal PROVIDED every accepted candidate costs at most the null link
   ([bounded R2 l]: 0 <= dist**2 <= search_range**2 for every candidate of the source): then linking the source
   to its one destination d at its cheapest candidate is is_opt for that source.  (The other reachable shortcut,
   a destination without source, makes no pair: Opt.is_opt_nil.  The third shortcut, a source without
   destination, is unreachable: no dictionary entry has an empty destination set, C02_subnet_entries.) *)
Theorem C02_generated_shortcut_optimal : forall (s d : nat) (R2 : Z) (l : list cand),
  l <> [] -> bounded R2 l -> (forall dc, In dc l -> fst dc = Some d) ->
  exists c, In (Some d, c) l /\
    is_opt [(s, sort_cands l ++ [(None, R2)])] [((s, sort_cands l ++ [(None, R2)]), (Some d, c))].
Proof. exact shortcut_one_one_opt. Qed.
Print Assumptions C02_generated_shortcut_optimal.

(* (11b) ... and WITHOUT that bound it is not.  The KD-tree accepts candidates up to search_range + 1e-7; in the
   world below search_range**2 = 25 and the query hands source 0 to destination 0 at squared distance 26.  The
   generated Subnets(...) ; assign_links returns the link 0 -> 0 (through the shortcut), although leaving the source
   unlinked (cost 25) is cheaper: the returned assignment is not is_opt.  This is exactly the slack by which the
   implementation may deviate from the property's optimum; (11d) excludes it by hypothesis on the query. *)
Example C02_generated_shortcut_needs_bound :
  (exists w1 w2, py_Subnets_init slack_query slack_world = FDone w1 tt /\
                 get_forward_cands w1 0 = [(Some 0%nat, 26)] /\
                 py_Linker_assign_links (fun l => l) w1 = FDone w2 ([Some 0%nat], [Some 0%nat]))
  /\ ~ is_opt [slack_item] [(slack_item, (Some 0%nat, 26))].
Proof. exact shortcut_not_opt_without_bound. Qed.

(* (11c) Subnets(...) ; assign_links on ANY world state (w1 is what (10a) leaves: Inv, mst_sim, forward_cands =
   fcs_of) and ANY query result E = qedges q whose costs lie in [0, search_range**2], with MAX_SUB_NET_SIZE >= 1
   (with 0 the one-source shortcut would link where the size rule says raise):
     - SubnetOversizeException if some dictionary entry has more than MAX_SUB_NET_SIZE sources;
     - otherwise NO exception, and the returned (spl, dpl) are the links of an assignment that is is_opt over
       the items read off the query ([qitems]: for every source its candidates sorted by cost, then the null
       link) -- the per-subnet optima of (10d) and the shortcuts of (11a) composed by Opt.is_opt_concat using
       the partition facts of Inv (source sets and destination sets of the entries disjoint and covering);
       every source occurs exactly once in spl, every destination exactly once in dpl, no (None, None) pair:
       the preconditions of C02_generated_apply_links. *)
Theorem C02_generated_assign_links_optimal : forall (ord : list nat -> list nat),
  (forall l, Permutation (ord l) l) -> forall (w1 : lk) (E : list (nat * nat * Z)) (m2 : mst),
  let ns := length (k_srcs w1) in let nd := length (k_dests w1) in
  Inv nd (map edge_of E) m2 -> mst_sim ns nd (k_mst w1) m2 ->
  (forall s, (s < ns)%nat -> get_forward_cands w1 s = fcs_of s E) ->
  (forall e, In e E -> (fst (fst e) < ns)%nat) ->
  (forall e, In e E -> 0 <= snd e <= k_R2 w1) -> 0 <= k_R2 w1 -> (1 <= k_max_size w1)%nat ->
  k_includes_lost w1 = false ->
  let r := py_Linker_assign_links ord w1 in
  (oversize_in (k_max_size w1) (dict_values w1) -> r = FFail XSubnetOversizeException) /\
  (~ oversize_in (k_max_size w1) (dict_values w1) ->
     exists w2 spl dpl pairs, r = FDone w2 (spl, dpl) /\ is_opt (qitems (k_R2 w1) E ns) pairs /\
       links_of spl dpl = map forget (map strip pairs) /\
       Permutation (somes spl) (seq 0 ns) /\ Permutation (somes dpl) (seq 0 nd) /\
       length spl = length dpl /\ Forall good_pair (combine spl dpl) /\
       same_frame w1 w2 /\ k_mst w2 = k_mst w1).
Proof. exact assign_links_opt. Qed.
Print Assumptions C02_generated_assign_links_optimal.

(* (11d) The KD-tree primitive.  [query_exact m sps ds q]: row i of q lists every source whose (weighted) squared
   distance to destination i is <= search_range**2 exactly once, at that squared distance, and nothing else
   ([query_ok] adds "nearest first"; the order within a row only decides dictionary ids and tie-breaking).
   Under it the forward_cands the generated compute() builds for source s are Model.Link.real_cands of its
   position, so the items of (11c) ARE Model.Link.items_of -- item_ok and "every accepted candidate costs at
   most the null link" are consequences, no longer hypotheses. *)
Theorem C02_generated_real_cands : forall m sps ds (q : kdq) s sp,
  query_exact m sps ds q -> nth_error sps s = Some sp -> fcs_of s (qedges q) = real_cands m sp ds 0.
Proof. exact gen_real_cands. Qed.
Print Assumptions C02_generated_real_cands.

Theorem C02_generated_items : forall m pred st ds (q : kdq),
  query_exact m (map (pred (now st)) (live st)) ds q ->
  qitems (mR2 m) (qedges q) (length (live st)) = items_of m pred st ds.
Proof. exact qitems_items_of. Qed.
Print Assumptions C02_generated_items.

(* (11e) The size clause on the grouping of (3)/(4): the dictionary has an entry with more than ms >= 1 sources
   exactly when Model.Link.components of the items has a group with more than ms sources. *)
Theorem C02_generated_oversize_is_component : forall (nd ns : nat) (R2 : Z) (E : list (nat * nat * Z)) (m2 : mst),
  Inv nd (map edge_of E) m2 -> (forall e, In e E -> (fst (fst e) < ns)%nat) -> forall ms, (1 <= ms)%nat ->
  (oversize_in ms (map snd (subs m2)) <-> exists g, In g (components (qitems R2 E ns)) /\ (ms < length g)%nat).
Proof. exact oversize_components. Qed.
Print Assumptions C02_generated_oversize_is_component.

(* (11f) HEADLINE: one generated step is the Crocker-Grier optimum.  The world w stands for the Linker right after
   update_hash: its source points are the candidate sources of the model state st (k_srcs w = live st: previous
   frame plus remembered, (7)), its destination points the new frame, search_range**2 = mR2 m; q is the result
   of the KD-tree query under (11d) at the positions pred predicts.  Then Subnets(...) does not raise, and
   assign_links
     - raises SubnetOversizeException exactly when some subnet of the dictionary has more than MAX_SUB_NET_SIZE
       sources, which is exactly when some group of [components] has (the clause of C02_step_optimal), and
       raises NOTHING else;
     - otherwise returns (spl, dpl) whose links (source, destination or None) are those of pairs that are
       is_opt over items_of m pred st (the new frame): over ALL candidate sources at once, one-to-one, using
       only pairs within range, of minimal total (squared displacements + search_range**2 per source left
       unlinked); every source is listed once, every destination once (unlinked ones with source None: new
       trajectories).  For every iteration order [ord] of the Python sets. *)
Theorem C02_generated_step_optimal : forall (ord : list nat -> list nat) (m : metric) (pred : nat -> src -> pt)
    (st : lstate) (q : kdq) (w : lk),
  (forall l, Permutation (ord l) l) ->
  metric_ok m -> (1 <= k_max_size w)%nat -> k_srcs w = live st -> k_R2 w = mR2 m ->
  query_exact m (map (pred (now st)) (live st)) (k_dests w) q ->
  let its := items_of m pred st (k_dests w) in
  exists w1, py_Subnets_init q w = FDone w1 tt /\
    (py_Linker_assign_links ord w1 = FFail XSubnetOversizeException
       <-> exists e, In e (dict_values w1) /\ (k_max_size w < length (fst e))%nat) /\
    ((exists e, In e (dict_values w1) /\ (k_max_size w < length (fst e))%nat)
       <-> exists g, In g (components its) /\ (k_max_size w < length g)%nat) /\
    (forall x, py_Linker_assign_links ord w1 = FFail x -> x = XSubnetOversizeException) /\
    (forall w2 spl dpl, py_Linker_assign_links ord w1 = FDone w2 (spl, dpl) ->
       exists pairs, is_opt its pairs /\ links_of spl dpl = map forget (map strip pairs) /\
         Permutation (somes spl) (seq 0 (length (live st))) /\
         Permutation (somes dpl) (seq 0 (length (k_dests w))) /\
         length spl = length dpl /\ (forall sd, In sd (combine spl dpl) -> sd <> (None, None)) /\
         same_frame w1 w2).
Proof. exact gen_step_optimal. Qed.
Print Assumptions C02_generated_step_optimal.

(* (11g) ... and the whole generated Linker.next_level = update_hash ; Subnets(...) ; assign_links ; apply_links,
   links AND labels: composing (11f) with (10e).  w is the Linker before the step, the source points of the step
   (points of the current hash, then mem_set in iteration order ordp) are the candidate sources live st, qq is the
   memory queue of (7).  next_level raises SubnetOversizeException exactly when a group of [components] has more
   than MAX_SUB_NET_SIZE sources and raises nothing else; otherwise there is an is_opt assignment [pairs] over ALL
   candidate sources such that every point j of the new frame gets the track id of the source [pairs] links to it,
   or a fresh id (counter + rank among the new trajectories), and mem_set is what the model's q_step keeps. *)
Theorem C02_generated_next_level_optimal : forall (ord : list nat -> list nat) (ordp : list src -> list src)
    (m : metric) (pred : nat -> src -> pt) (st : lstate) (qq : qstate) (q : kdq) (w : lk) (coords : list pt) (t : nat),
  (forall l, Permutation (ord l) l) ->
  metric_ok m -> (1 <= k_max_size w)%nat -> k_R2 w = mR2 m ->
  hash_srcs w ++ ordp (k_mem_set w) = live st ->
  query_exact m (map (pred (now st)) (live st)) coords q ->
  q_mem qq = map key_of (k_mem_set w) -> q_hist qq = map (map key_of) (k_mem_history w) ->
  (k_memory w <= length (k_mem_history w))%nat -> NoDup (map key_of (live st)) ->
  let its := items_of m pred st coords in
  let r := py_Linker_next_level ord ordp q w coords t in
  (r = FFail XSubnetOversizeException <-> exists g, In g (components its) /\ (k_max_size w < length g)%nat) /\
  (forall x, r = FFail x -> x = XSubnetOversizeException) /\
  (forall w3 u, r = FDone w3 u ->
     exists spl dpl pairs, is_opt its pairs /\ links_of spl dpl = map forget (map strip pairs) /\
       Permutation (somes dpl) (seq 0 (length coords)) /\
       k_counter w3 = (k_counter w + length (births spl dpl))%nat /\
       (forall j, (j < length coords)%nat ->
          alook j (k_dtrack w3) = Some (match source_of (links_of spl dpl) j with
                                        | Some i => lab_of st i
                                        | None => (k_counter w + index_of j (births spl dpl))%nat end)) /\
       (forall k, In k (map key_of (k_mem_set w3)) <-> In k (q_mem (q_step (k_memory w) (live st) (links_of spl dpl) qq))) /\
       k_dests w3 = coords /\ k_now w3 = t).
Proof. exact gen_next_level_optimal. Qed.
Print Assumptions C02_generated_next_level_optimal.

(* non-vacuity of (11f): sources at 0, 3, 20, new frame at 1, 4, 40, search_range 5.  The query below satisfies
   query_ok (sources 0 and 1 compete for destinations 0 and 1, nearest first); the generated step -- from a world
   with a stale dictionary flag and stale .subnet attributes -- links 1 -> 1 and 0 -> 0, starts a trajectory at
   destination 2 and loses source 2: the links of the model's step_links. *)
Example C02_generated_query_example :
  query_ok ex_metric (map (no_pred (now ex_state)) (live ex_state)) ex_dests ex_query.
Proof. exact ex_query_ok. Qed.
Example C02_generated_step_optimal_example :
  match py_Subnets_init ex_query ex_world with
  | FDone w1 _ => match py_Linker_assign_links (fun l => l) w1 with FDone _ v => Some (v, dict_values w1) | FFail _ => None end
  | FFail _ => None end
  = Some ([Some 1; Some 0; None; Some 2]%nat, [Some 1; Some 0; Some 2; None]%nat, [([1; 0], [1; 0]); ([], [2])]%nat)
  /\ step_links ex_metric 30 no_pred ex_state ex_dests
     = Ok [(2%nat, (None, 25)); (1%nat, (Some 1%nat, 1)); (0%nat, (Some 0%nat, 1))].
Proof. vm_compute. split; reflexivity. Qed.
