#!/bin/bash
# Build the whole Coq development from files on disk (offline). Full .vo build.
set -e
cd "$(dirname "$0")"
export PYTHONHASHSEED=0 PYTHONPATH=/repo TRACKPY_VERIF=1
# route T: regenerate models from /repo's current source
/venv/bin/python -W ignore tools/regen_all.py
cd coq
# gate: nothing unproved, no axioms declared, no checks switched off
if grep -rnE '\b(Admitted|admit|Axiom|Parameter|Conjecture|Unset Guard|bypass_check|Admit Obligations)\b' --include=*.v . | grep -v '^\./[^:]*:[0-9]*:\s*(\*' ; then
  echo "forbidden construct found"; exit 1; fi
coq_makefile -f _CoqProject -o Makefile > /dev/null
timeout 3000 make -j16 2>&1 | grep -v '^COQDEP\|^COQC\|^make' | tail -40
test ${PIPESTATUS[0]} -eq 0
echo "setup ok"
